#!/usr/bin/env python3
"""Engine V: build one Verus file per run from /repo's working tree (real type definitions and real
function bodies, verbatim) with contracts / loop invariants / ghost blocks spliced in, run Verus on it
and map results to obligations. See DESIGN.md 3.3."""
import os
import re
import sys
import json
import time

sys.path.insert(0, os.path.dirname(os.path.abspath(__file__)))
from extract import Source, AnchorLost, sha, dedent  # noqa: E402
import vlib  # noqa: E402
from vlib import VERIF  # noqa: E402

KEEP_DERIVES = {'Clone', 'Copy', 'PartialEq', 'Eq'}


def filter_derives(text, keep=KEEP_DERIVES):
    def rep(m):
        items = [x.strip() for x in m.group(1).split(',') if x.strip()]
        kept = [x for x in items if x in keep]
        return '#[derive(' + ', '.join(kept) + ')]' if kept else ''
    text = re.sub(r'#\[derive\(([^)]*)\)\]', rep, text)
    text = re.sub(r'\n[ \t]*#\[rustfmt::skip\]', '', text)
    return text


def extract_type(s, kind, name, keep=KEEP_DERIVES):
    it = s.item(kind, name)
    return filter_derives(s.text[it['start']:it['end']], keep)


HOISTED = []


def guard_arm_to_if(name, body):
    """Mechanical rewrite (listed in the evidence): a guarded arm immediately followed by the final wildcard arm,
        PAT if GUARD => { B } _ => { W }      becomes      PAT => { if GUARD { B } else { W } } _ => { W }
    which is semantically identical when W does not use PAT's bindings. Needed because Verus loses the
    frame of a `&mut self` scrutinee call when a guarded arm is followed by a returning wildcard arm
    (minimal reproduction in DESIGN.md)."""
    m = re.search(r'(?P<pat>Some\(\w+\))\s*if\s+(?P<g>[^{}]*?)\s*=>\s*\{(?P<b>[^{}]*)\}\s*_\s*=>\s*\{(?P<w>[^{}]*)\}', body, flags=re.S)
    if not m or len(re.findall(r'=>\s*\{[^{}]*\}\s*_\s*=>', body)) < 1:
        raise AnchorLost(f'{name}: guarded-arm shape not found for the guard_to_if rewrite')
    binder = re.match(r'Some\((\w+)\)', m.group('pat')).group(1)
    if re.search(r'\b' + binder + r'\b', m.group('w')):
        raise AnchorLost(f'{name}: wildcard arm uses the guarded arm binding')
    new = (f"{m.group('pat')} => {{ if {m.group('g')} {{{m.group('b')}}} else {{{m.group('w')}}} }}\n"
           f"                _ => {{{m.group('w')}}}")
    return body[:m.start()] + new + body[m.end():]


def splice_fn(s, name, impl, spec):
    """Return the verbatim function text with spec clauses spliced between signature and body and
    invariants spliced at loop headers. spec: dict(ret=name, requires=[..], ensures=[..], loops={ordinal: [inv..]},
    external_body=bool, decreases=..., proofs={stmt anchor regex: proof text}, attrs=[...])"""
    it = s.fn(name, impl=impl)
    sig = s.text[it['sig_start']:it['open']]
    body = s.text[it['open']:it['end']]
    mbody = s.mask[it['open']:it['end']]
    spec = spec or {}
    if spec.get('strip_pub'):
        # visibility does not matter in the single generated module; a `pub fn` may not mention private spec functions / fields
        sig = re.sub(r'^(\s*)pub(?:\([^)]*\))?\s+', r'\1', sig)
    # return value naming:  `-> T` => `-> (r: T)`
    if spec.get('ret'):
        m = re.search(r'->\s*(.+?)\s*$', sig, flags=re.S)
        if not m:
            raise AnchorLost(f'{name}: no return type to name')
        sig = sig[:m.start()] + f'-> ({spec["ret"]}: {m.group(1).strip()})\n'
    clauses = ''
    if spec.get('requires'):
        clauses += '    requires\n' + ''.join(f'        {c},\n' for c in spec['requires'])
    if spec.get('ensures'):
        clauses += '    ensures\n' + ''.join(f'        {c},\n' for c in spec['ensures'])
    if spec.get('decreases'):
        clauses += f'    decreases {spec["decreases"]},\n'
    # loop invariants: loops in source order (`loop {`, `while .. {`, `for .. {`)
    loops = spec.get('loops', {})
    inserts = []
    if loops:
        heads = [m for m in re.finditer(r'\b(loop|while|for)\b[^{;]*\{', mbody)]
        for ordinal, invs in loops.items():
            if ordinal >= len(heads):
                raise AnchorLost(f'{name}: loop #{ordinal} not found')
            m = heads[ordinal]
            brace = m.end() - 1
            txt = ''
            if invs.get('invariant_except_break'):
                txt += '\n    invariant_except_break\n' + ''.join(f'        {c},\n' for c in invs['invariant_except_break'])
            txt += '\n    invariant\n' + ''.join(f'        {c},\n' for c in invs.get('invariant', []))
            if invs.get('ensures'):
                txt += '    ensures\n' + ''.join(f'        {c},\n' for c in invs['ensures'])
            if invs.get('decreases'):
                txt += f'    decreases {invs["decreases"]},\n'
            inserts.append((brace, txt))
            if invs.get('iter'):
                # `for x in e` -> `for x in it: e`
                mm = re.match(r'for\s+(\w+)\s+in\s+', mbody[m.start():])
                if not mm:
                    raise AnchorLost(f'{name}: loop #{ordinal} is not a for loop')
                inserts.append((m.start() + mm.end(), invs['iter'] + ': '))
    for anchor, ptxt in spec.get('proofs', {}).items():
        ms = [m for m in re.finditer(anchor, mbody)]
        if len(ms) != 1:
            raise AnchorLost(f'{name}: ghost block anchor {anchor!r} matched {len(ms)} times')
        inserts.append((ms[0].start(), ptxt + '\n'))
    for anchor, ptxt in spec.get('proofs_after', {}).items():
        ms = [m for m in re.finditer(anchor, mbody)]
        if len(ms) != 1:
            raise AnchorLost(f'{name}: ghost block anchor {anchor!r} matched {len(ms)} times')
        # end of the statement that starts at the anchor: the first `;` at bracket depth 0
        k, depth = ms[0].start(), 0
        while k < len(mbody):
            ch = mbody[k]
            if ch in '([{':
                depth += 1
            elif ch in ')]}':
                depth -= 1
            elif ch == ';' and depth == 0:
                break
            k += 1
        if k >= len(mbody):
            raise AnchorLost(f'{name}: statement end not found after {anchor!r}')
        inserts.append((k + 1, '\n' + ptxt + '\n'))
    for off, txt in sorted(inserts, reverse=True):
        body = body[:off] + txt + body[off:]
    if spec.get('hoist_items'):
        # Verus does not support item statements inside a function body: `enum X {..}` declared in the body is moved,
        # verbatim (derive list filtered), in front of the impl block (listed rewrite)
        while True:
            mb = Source(s.path, body).mask
            m = re.search(r'(?:#\[derive\([^\]]*\)\]\s*)?\benum\s+\w+\s*\{', mb)
            if not m:
                break
            o = m.end() - 1
            depth, k = 0, o
            while k < len(mb):
                if mb[k] == '{':
                    depth += 1
                elif mb[k] == '}':
                    depth -= 1
                    if depth == 0:
                        break
                k += 1
            HOISTED.append(filter_derives(body[m.start():k + 1]))
            body = body[:m.start()] + body[k + 1:]
    if spec.get('guard_to_if'):
        body = guard_arm_to_if(name, body)
    for old, new in spec.get('rewrites', []):
        # rewrites are applied where their source text occurs; when it does not occur the construct they
        # work around is simply absent (if Verus then meets an unsupported construct the run is undecided)
        body = body.replace(old, new)
    if spec.get('stub_body'):
        # the body is not looked at at all (isolation of a function the verifier cannot take, see splice_fn_safe)
        body = '{ unimplemented!() }'
    attrs = ''.join(f'    {a}\n' for a in spec.get('attrs', []))
    if spec.get('external_body'):
        attrs += '    #[verifier::external_body]\n'
    return attrs + sig.rstrip() + '\n' + clauses + body + '\n', sha(s.text_of(it))


# ------------------------------------------------------------------------------------------------
# isolation: a function whose inner anchors are lost, or in which Verus meets an unsupported construct, is kept as
# `external_body` with its contract (so that its callers are still checked against the contract) and its own obligations
# become undecided - instead of losing the whole generated file
# ------------------------------------------------------------------------------------------------
FORCED = set()      # 'Type::fn' / 'fn' names to stub in the next build
LOST = {}           # name -> reason
NODEC_FORCED = {}   # name -> reason: a loop without `decreases` appeared in the function: its termination is not claimed in this run


def splice_fn_safe(s, name, impl, spec):
    key = (impl + '::' if impl else '') + name
    def stub(reason):
        LOST.setdefault(key, reason)
        sp = dict((k, v) for k, v in (spec or {}).items() if k in ('ret', 'requires', 'ensures', 'strip_pub'))
        sp.update(external_body=True, stub_body=True)
        return splice_fn(s, name, impl, sp)
    if key in FORCED:
        return stub(LOST.get(key, 'unsupported construct'))
    if key in NODEC_FORCED:
        spec = dict(spec or {})
        spec['attrs'] = list(spec.get('attrs', [])) + ['#[verifier::exec_allows_no_decreases_clause]']
    try:
        return splice_fn(s, name, impl, spec)
    except AnchorLost as e:
        try:
            return stub('anchor lost inside the function: ' + str(e))
        except AnchorLost:
            raise e


def fn_starts(text):
    lines = text.split('\n')
    starts = []
    cur_impl = None
    for i, ln in enumerate(lines):
        mi = re.match(r'impl(?:<[^>]*>)?\s+(?:\w+\s+for\s+)?(\w+)', ln)
        if mi:
            cur_impl = mi.group(1)
        m = re.match(r'\s*(?:pub\s+)?(?:open\s+|closed\s+)?(?:spec\s+|proof\s+|exec\s+)?fn\s+(\w+)', ln)
        if m:
            indented = ln.startswith(' ')
            starts.append((i + 1, (cur_impl + '::' if cur_impl and indented else '') + m.group(1)))
    return starts


def fn_at(starts, line):
    fn = None
    for s0, name in starts:
        if s0 <= line:
            fn = name
    return fn


# ------------------------------------------------------------------------------------------------
# run(): called by run_check.py for the V obligations of a property
# ------------------------------------------------------------------------------------------------
ALLOWED_ASSUMES = {'assume(self.index < usize::MAX); /* A1 */'}
_cache = {}


SUM_SPEC = dict(
    ret='r',
    requires=['spec_sum(raw_output_buffer@, *buffer_key) <= usize::MAX', 'vstd::std_specs::hash::obeys_key_model::<String>()'],
    ensures=['/*C07.sum*/ r == spec_sum(raw_output_buffer@, *buffer_key)'],
    loops={0: dict(iter='it', invariant=['sum == spec_sum(raw_output_buffer@.take(it.index@ as int), *buffer_key)',
                                          'vstd::std_specs::hash::obeys_key_model::<String>()',
                                          'spec_sum(raw_output_buffer@, *buffer_key) <= usize::MAX'])},
    proofs={r'let\s+mut\s+sum\s*=\s*0;': 'broadcast use vstd::std_specs::hash::group_hash_axioms;',
            r'if\s+let\s+Some\(value\)\s*=\s*value\.get\(buffer_key\)':
                'proof { lemma_sum_step(raw_output_buffer@, *buffer_key, it.index@ as int); '
                'lemma_sum_mono(raw_output_buffer@, *buffer_key, it.index@ as int + 1); }',
            r'\bsum\s*\}\s*$': 'proof { assert(raw_output_buffer@.take(raw_output_buffer@.len() as int) == raw_output_buffer@); }'})


def build_sum(scratch):
    s = Source(os.path.join(scratch, 'src/function.rs'))
    t, h = splice_fn(s, 'get_buffer_sum', None, SUM_SPEC)
    prelude = open(os.path.join(VERIF, 'harness', 'verus_sum_prelude.rs')).read()
    return prelude + '\n' + t + '\n} // verus!\nfn main() {}\n', {'function::get_buffer_sum': h}


def build_and_verify(scratch, kind='parser'):
    """Build the generated Verus file of this kind from the scratch copy and verify it once per process."""
    if kind in _cache:
        return _cache[kind]
    sys.path.insert(0, os.path.join(VERIF, 'contracts'))
    import verus_specs
    import verus_parser
    res = dict(anchor_lost=None)
    FORCED.clear(); LOST.clear(); NODEC_FORCED.clear()
    vdir = os.path.join(os.path.dirname(scratch), 'verus')
    os.makedirs(vdir, exist_ok=True)
    path = os.path.join(vdir, kind + '_v.rs')
    for _round in range(5):
        try:
            if kind == 'parser':
                text, shas = verus_parser.build(scratch, verus_specs.SPECS, verus_specs.EXTRA)
            elif kind == 'lexer':
                text, shas = verus_parser.build_lexer(scratch, verus_specs.LEXER_SPECS, verus_specs.LEXER_EXTRA)
            else:
                text, shas = build_sum(scratch)
        except AnchorLost as e:
            res['anchor_lost'] = str(e)
            _cache[kind] = res
            return res
        open(path, 'w').write(text)
        # the crate's default features, so that cfg(feature = ..) code is the code that `cargo build` compiles
        r = vlib.run_verus(path, extra=['--', '--cfg', 'feature="git"', '--cfg', 'feature="users"'])
        js0 = r['json']
        vr0 = (js0 or {}).get('verification-results', {})
        if not (bool(vr0.get('encountered-vir-error')) or js0 is None or ('verified' not in vr0)):
            break
        # a construct Verus (or rustc, on the generated text) does not take: isolate the functions the errors point into and retry
        starts0 = fn_starts(text)
        offenders = {}
        for m in re.finditer(r'^error(?:\[\w+\])?: (.*)\n\s*--> [^:\n]+:(\d+):(\d+)', r['out'], flags=re.M):
            f = fn_at(starts0, int(m.group(2)))
            if f and not f.startswith('verif_') and f not in ('main',):
                offenders.setdefault(f, m.group(1)[:200])
        new = set(offenders) - FORCED
        if not new:
            break
        for f in new:
            if 'must have a decreases clause' in offenders[f] and f not in NODEC_FORCED:
                # a loop the contract table does not know: keep checking the function's other clauses, drop its termination claim
                NODEC_FORCED[f] = 'a loop without a decreases clause appeared in this function: termination is not proved in this run'
                continue
            FORCED.add(f)
            LOST[f] = 'Verus cannot take this function as extracted (kept as external_body with its contract): ' + offenders[f]
    res['lost'] = dict(LOST)
    res['nodec'] = dict(NODEC_FORCED)
    res.update(text=text, shas=shas, out=r['out'], json=r['json'], cmd=r['cmd'], wall=r['wall'], rc=r['rc'], path=path)
    # assumption scan
    assumes = re.findall(r'\bassume\s*\([^;]*;(?:\s*/\*[^*]*\*/)?', text)
    res['assumes'] = assumes
    res['bad_assumes'] = [a for a in assumes if a.strip() not in ALLOWED_ASSUMES]
    res['admits'] = len(re.findall(r'\badmit\s*\(', text))
    res['external_bodies'] = re.findall(r'#\[verifier::external_body\]\s*\n\s*(?:pub\s+)?(?:proof\s+)?fn\s+(\w+)', text)
    res['assume_specs'] = re.findall(r'assume_specification(?:<[^>]*>)?\s*\[\s*([^\]]+?)\s*\]', text)
    # per function status
    fstat = {}
    js = r['json']
    if js and 'smt' in js.get('times-ms', {}):
        for mod in js['times-ms']['smt']['smt-run-module-times']:
            for f in mod.get('function-breakdown', []):
                name = f['function'].split('::', 1)[1] if '::' in f['function'] else f['function']
                prev = fstat.get(name)
                ok = f['success'] and (prev['ok'] if prev else True)
                fstat[name] = dict(ok=ok, ms=(prev['ms'] if prev else 0) + f.get('time', 0), rlimit=f.get('rlimit'))
    res['fstat'] = fstat
    # error blocks grouped by enclosing function (by line)
    lines = text.split('\n')
    starts = []
    cur_impl = None
    for i, ln in enumerate(lines):
        mi = re.match(r'impl(?:<[^>]*>)?\s+(?:\w+\s+for\s+)?(\w+)', ln)
        if mi:
            cur_impl = mi.group(1)
        if re.match(r'^(?:pub\s+)?(?:open\s+|closed\s+|uninterp\s+)?(?:spec|proof)\s+fn', ln) or re.match(r'^fn\s', ln):
            cur_impl_here = None
        m = re.match(r'\s*(?:pub\s+)?(?:open\s+|closed\s+)?(?:spec\s+|proof\s+|exec\s+)?fn\s+(\w+)', ln)
        if m:
            indented = ln.startswith(' ')
            starts.append((i + 1, (cur_impl + '::' if cur_impl and indented else '') + m.group(1)))
    errs = {}
    for m in re.finditer(r'^error(?:\[\w+\])?: (.*)\n\s*--> [^:\n]+:(\d+):(\d+)\n((?:.*\n){0,14}?)(?=\n|error|warning|verification results)', r['out'], flags=re.M):
        line = int(m.group(2))
        fn = None
        for s0, name in starts:
            if s0 <= line:
                fn = name
        block = m.group(0).strip()
        # label of the failing clause: on the primary line, or on any source line the block quotes (an invariant that fails
        # at a `break` is reported at the break, with the invariant's line quoted below it)
        cited = [line] + [int(x) for x in re.findall(r'^\s*(\d+)\s*\|', block, flags=re.M)]
        for ln_no in cited:
            lab = re.search(r'/\*(C\d\d[^*]*)\*/', lines[ln_no - 1]) if 0 < ln_no <= len(lines) else None
            if lab and ('/*' + lab.group(1) + '*/') not in block:
                block = '/*' + lab.group(1) + '*/ ' + block      # tag the block with the label of the failing clause line
        errs.setdefault(fn, []).append(block)
    res['errors_by_fn'] = errs
    vr = (js or {}).get('verification-results', {})
    res['vir_error'] = bool(vr.get('encountered-vir-error')) or js is None or ('verified' not in vr)
    res['verified'] = vr.get('verified')
    res['errors'] = vr.get('errors')
    _cache[kind] = res
    return res


def run(spec, prop, tier, vobl, results, undecided, violations, checker_cmds, assumptions, extra, scratch):
    kinds = sorted(set(o.get('verus_file', 'parser') for o in vobl))
    for kind in kinds:
        run_kind(kind, [o for o in vobl if o.get('verus_file', 'parser') == kind], prop, results, undecided, violations,
                 checker_cmds, assumptions, extra, scratch)


def run_kind(kind, vobl, prop, results, undecided, violations, checker_cmds, assumptions, extra, scratch):
    res = build_and_verify(scratch, kind)
    if res.get('anchor_lost'):
        for o in vobl:
            results[o['id']] = dict(status='undecided', detail='anchor lost: ' + res['anchor_lost'])
            undecided.append(o['id'])
        return
    checker_cmds.append(f'verus {kind}_v.rs --output-json --time --multiple-errors 50')
    if res['vir_error'] or res['bad_assumes'] or res['admits']:
        why = ('unsupported construct / tool error in the generated Verus file' if res['vir_error'] else
               f"unexpected assume/admit in generated file: {res['bad_assumes']} admits={res['admits']}")
        tail = '\n'.join(l for l in res['out'].split('\n') if l.startswith('error'))[:1500]
        for o in vobl:
            results[o['id']] = dict(status='undecided', detail=why + ' :: ' + tail)
            undecided.append(o['id'])
        return
    # canary: the deliberately false function must fail
    can = res['fstat'].get('verif_canary_must_fail')
    can_ok = can is not None and not can['ok']
    extra['canaries'].append({'harness': 'verus fn verif_canary_must_fail (ensures false)', 'expected': 'FAILED',
                              'got': 'FAILED' if can_ok else 'VERIFIED-or-missing', 'ok': can_ok})
    if not can_ok:
        undecided.append('canary:verus')
    lost = res.get('lost', {})
    for o in vobl:
        fn = o['verus_fn']
        if fn in lost or fn.split('::')[-1] in lost:
            results[o['id']] = dict(status='undecided', detail=lost.get(fn, lost.get(fn.split('::')[-1])))
            undecided.append(o['id'])
            continue
        st = res['fstat'].get(fn)
        if st is None:
            results[o['id']] = dict(status='undecided', detail=f'function {fn} not in Verus report')
            undecided.append(o['id'])
            continue
        errs = res['errors_by_fn'].get(fn, [])
        label = o.get('label')
        nodec = res.get('nodec', {})
        if st['ok'] and o.get('label') is None and (fn in nodec or fn.split('::')[-1] in nodec):
            # panic freedom / frame verified, but termination could not be stated for a loop that is not in the contract table
            results[o['id']] = dict(status='undecided', detail=nodec.get(fn, nodec.get(fn.split('::')[-1])))
            undecided.append(o['id'])
            continue
        if st['ok']:
            results[o['id']] = dict(status='discharged', time=st['ms'] / 1000.0, detail=f"rlimit {st['rlimit']}")
        else:
            joined = '\n\n'.join(errs)
            if 'rlimit' in joined.lower() or 'resource limit' in joined.lower() or 'timed out' in joined.lower():
                results[o['id']] = dict(status='undecided', detail='solver resource limit: ' + joined[:800])
                undecided.append(o['id'])
                continue
            lab_rx = r'/\*C\d\d[^*]*\*/'
            unlabelled = [e for e in errs if not re.search(lab_rx, e)]
            if label is not None:
                # a labelled obligation fails on its own clause(s) and on every un-labelled error of the function (a broken
                # invariant, assertion or callee precondition undermines all postconditions of that function)
                mine = [e for e in errs if '/*' + label + '*/' in e] + unlabelled
            else:
                # un-labelled obligation (panic freedom, frame, termination): every error not tied to a labelled clause
                mine = unlabelled
            if not mine and errs:
                results[o['id']] = dict(status='discharged', time=st['ms'] / 1000.0,
                                        detail='function fails only on clauses that belong to other obligations')
                continue
            if not mine:
                mine = ['function reported as failed by Verus; no error block could be attributed']
            joined = '\n\n'.join(mine)
            results[o['id']] = dict(status='failed', time=st['ms'] / 1000.0, detail=joined[:3000])
            violations.append(o)
    for fn, h in res['shas'].items():
        extra['functions'].append({'fn': fn, 'engine': 'V', 'how': 'extracted verbatim on this run, contracts spliced',
                                   'sha256_16': h})
    if kind == 'lexer':
        assumptions.append('lexer: a Vec has at most usize::MAX elements and a String fewer than isize::MAX characters (requires of Lexer::new; true of every Rust value)')
        assumptions.append('lexer: `X.chars().nth(N)` is the N-th character of X or None (external stub verif_char_at replacing that expression: Verus cannot specify the provided method Iterator::nth)')
        assumptions.append('lexer: looks_like_date (regex) and looks_like_expression (closures) return an arbitrary bool and do not panic or diverge (external stubs)')
        assumptions.append('trusted (external_body, no body verified): ' + ', '.join(sorted(set(res['external_bodies']))))
        extra['dropped'].append('Engine V (lexer) extraction drops: derives other than PartialEq, the test module, DATE_ALIKE_REGEX; rewrite: `input_part.chars().nth(self.char_index as usize)` -> `verif_char_at(input_part, self.char_index as usize)`')
        return
    if kind == 'sum':
        assumptions.append('SUM: the mathematical sum fits usize (requires); String keys obey the hash-table key model (vstd obeys_key_model::<String>, assumed)')
        return
    assumptions.append('A1: token cursor < usize::MAX at every next_lexem (one ghost assume in next_lexem; machine arithmetic on the cursor treated as bounded)')
    assumptions.append('termination: proved by decreases clauses for the functions under contract; helper methods extracted without contract carry exec_allows_no_decreases_clause')
    assumptions.append('T6: Lexem::clone / Expr::clone return equal values and Lexem == / != is structural equality (trusted impls replacing the derives)')
    assumptions.append('trusted (external_body, no body verified): ' + ', '.join(sorted(set(res['external_bodies']))))
    assumptions.append('assumed std contracts (assume_specification): ' + ', '.join(sorted(set(res['assume_specs']))))
    extra['dropped'].append('Engine V extraction drops: derives other than Clone/Copy/PartialEq/Eq, #[rustfmt::skip], cfg-gated enum variants '
                            '(User/Group need feature "users"), impl blocks other than the listed functions; rewrites: '
                            '`if let &Some(op) = &expr.op` -> `if let Some(op) = expr.op`, guarded arm -> if/else in parse_function, the local enum of parse_root_options hoisted in front of the impl block')
