#!/usr/bin/env python3
"""Apply a confirmed seeded change to /repo, run the given checks (default: the property it targets), undo it.
Usage: seed_run.py <PROP>_<K> [CHECK ...]"""
import json, os, subprocess, sys
sid = sys.argv[1]
checks = sys.argv[2:] or [sid.split('_')[0]]
d = f'/verif/seeded/{sid}'
def sh(cmd):
    p = subprocess.run(cmd, shell=True, stdout=subprocess.PIPE, stderr=subprocess.STDOUT, text=True)
    return p.returncode, p.stdout
rc, o = sh('git -C /repo status --short -- src')
assert not o.strip(), '/repo not clean: ' + o
rc, o = sh(f'git -C /repo apply {d}/patch.diff')
if rc != 0:
    # /repo has moved on (fix commits) since the seed was made: retry with reduced context
    rc, o = sh(f'git -C /repo apply -C1 {d}/patch.diff')
if rc != 0:
    print('APPLY FAILED', o); sys.exit(3)
res = {}
try:
    for c in checks:
        rc, o = sh(f'cd /verif && python3 tools/run_check.py {c} --tier quick')
        lines = [l for l in o.split('\n') if l.startswith('VIOLATION') or l.startswith('UNDECIDED') or l.startswith('[')]
        res[c] = {'rc': rc, 'lines': [l[:260] for l in lines]}
        print(f'== {sid} vs {c}: rc={rc}')
        for l in lines: print('   ', l[:260])
finally:
    sh('git -C /repo checkout -- .')
    sh('cd /verif && git checkout -- evidence')
json.dump(res, open(f'{d}/last_run.json', 'w'), indent=1)
