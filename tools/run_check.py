#!/usr/bin/env python3
"""Driver: run_check.py <PROPERTY> [--tier quick|thorough]
exit 0: every obligation discharged (or listed as known finding)
exit 1: 'VIOLATION property=<id> replay=<path>' for every failed must-hold obligation
exit 2: undecided (anchor lost, tool limit, injected text does not compile) - never a violation."""
import os
import sys
import json
import time
import importlib
import traceback

HERE = os.path.dirname(os.path.abspath(__file__))
sys.path.insert(0, HERE)
sys.path.insert(0, os.path.join(os.path.dirname(HERE), 'contracts'))
import vlib  # noqa: E402
from vlib import VERIF, Undecided, AnchorLost  # noqa: E402


def main():
    args = sys.argv[1:]
    prop = args[0]
    tier = os.environ.get('VERIF_TIER', 'quick')
    if '--tier' in args:
        tier = args[args.index('--tier') + 1]
    spec = importlib.import_module(prop)
    t0 = time.time()
    obligations = [o for o in spec.OBLIGATIONS if tier == 'thorough' or o.get('tier', 'quick') == 'quick']
    if os.environ.get('VERIF_ONLY'):   # development aid: restrict to obligations whose id contains the text
        obligations = [o for o in obligations if os.environ['VERIF_ONLY'] in o['id']]
    results = {}
    extra = dict(functions=[], dropped=[], not_covered=getattr(spec, 'NOT_COVERED', []), canaries=[], known=[],
                 injection=[], trusted=getattr(spec, 'TRUSTED', []))
    assumptions = list(getattr(spec, 'ASSUMPTIONS', []))
    checker_cmds = []
    undecided = []
    violations = []

    needed_units = []
    for o in obligations:
        for u in o.get('units', []):
            if u not in needed_units:
                needed_units.append(u)
    for u in getattr(spec, 'EXTRA_UNITS', []):
        if u not in needed_units:
            needed_units.append(u)
    import units as U
    kobl = [o for o in obligations if o['engine'] in ('K', 'F')]
    excluded = {}          # unit -> why its generated text does not compile (isolated, its obligations are undecided)
    kani_build_failed = False
    for attempt in range(4):
        scratch = vlib.make_scratch()
        inj = vlib.Injector(scratch)
        lost_units = dict(excluded)
        funcs, dropped, assum = [], [], []
        for u in needed_units:
            if u in excluded:
                continue
            inj.current_unit = u
            try:
                info = getattr(U, 'unit_' + u)(inj, scratch)
                funcs += info.get('functions', [])
                dropped += info.get('dropped', [])
                assum += info.get('assumptions', [])
            except AnchorLost as e:
                lost_units[u] = 'anchor lost: ' + str(e)
        inj.current_unit = None
        try:
            inj.apply()
        except AnchorLost as e:
            print(f'UNDECIDED property={prop} anchor lost while injecting: {e}')
            finish(prop, tier, obligations, results, t0, checker_cmds, assumptions, extra, 0)
            return 2
        # ---------------- Engine K / F --------------------------------------------------------------
        runnable = [o for o in kobl if not any(u in lost_units for u in o.get('units', []))]
        canaries = [c for c in getattr(spec, 'CANARIES', []) if c.get('engine', 'K') == 'K'
                    and not any(u in lost_units for u in c.get('units', []))
                    and all(u in needed_units for u in c.get('units', []))]
        kr = None
        if runnable:
            harnesses = [o['harness'] for o in runnable] + [c['harness'] for c in canaries]
            kr = vlib.run_kani(scratch, harnesses, harness_timeout=getattr(spec, 'HARNESS_TIMEOUT', 600))
            if kr['compile_failed'] or all(r['status'] == 'NOT_RUN' for r in kr['results'].values()):
                offenders = vlib.units_of_compile_errors(kr['out'], inj) if kr['compile_failed'] else {}
                new = {u: m for u, m in offenders.items() if u not in excluded}
                if new and attempt < 3:
                    for u, m in new.items():
                        excluded[u] = 'the text generated for this unit no longer compiles against its shim world: ' + m
                    continue        # rebuild without the offending unit(s)
                tail = '\n'.join(kr['out'].split('\n')[-60:])
                print(tail)
                print(f'UNDECIDED property={prop} the injected contracts/harnesses did not compile or Kani crashed '
                      f'(not a violation)')
                kani_build_failed = True
        break
    extra['functions'] += funcs
    extra['dropped'] += dropped
    assumptions += assum
    extra['injection'] = inj.log
    for o in kobl:
        lost = [u for u in o.get('units', []) if u in lost_units]
        if lost:
            results[o['id']] = dict(status='undecided', detail=lost_units[lost[0]])
            undecided.append(o['id'])
    if kr is not None:
        checker_cmds.append(kr['cmd'] if len(kr['cmd']) < 600 else kr['cmd'][:600] + ' ...')
    if kani_build_failed:
        for o in runnable:
            results[o['id']] = dict(status='undecided', detail='kani build failed')
            undecided.append(o['id'])
        runnable = []
    if runnable:
        for c in canaries:
            r = kr['results'][c['harness']]
            ok = r['status'] == 'FAILED'
            extra['canaries'].append({'harness': c['harness'], 'expected': 'FAILED', 'got': r['status'], 'ok': ok})
            if not ok:
                undecided.append('canary:' + c['harness'])
        for o in runnable:
            r = kr['results'][o['harness']]
            det = dict(time=r.get('time'), cover=r.get('cover'), checks=r.get('checks'), stubs=r.get('stubs'))
            if r['status'] == 'SUCCESSFUL':
                cov = r.get('cover')
                if cov is None or cov[0] < cov[1] or cov[1] == 0:
                    results[o['id']] = dict(status='undecided', detail=f'vacuity guard: cover {cov}', **det)
                    undecided.append(o['id'])
                else:
                    results[o['id']] = dict(status='discharged', **det)
            elif r['status'] == 'FAILED':
                results[o['id']] = dict(status='failed', detail='; '.join(r['failed'])[:600], **det)
                violations.append(o)
            else:
                results[o['id']] = dict(status='undecided', detail=r['status'] + ' ' + (r.get('raw') or '')[-400:], **det)
                undecided.append(o['id'])

    # ---------------- Engine V ---------------------------------------------------------------------
    vobl = [o for o in obligations if o['engine'] == 'V']
    if vobl:
        import verus_engine
        verus_engine.run(spec, prop, tier, vobl, results, undecided, violations, checker_cmds, assumptions, extra,
                         scratch)

    # ---------------- decide ---------------------------------------------------------------------------
    known = [k for k in vlib.load_known() if k.get('property') == prop and k.get('status') == 'known']
    rc = 0
    real_violations = 0
    os.makedirs(os.path.join(vlib.OUT, 'replays', prop), exist_ok=True)
    for o in violations:
        kf = [k for k in known if k['obligation'] == o['id']]
        if kf:
            # a known finding suppresses this obligation only if its residual harness (the same claim
            # with the known failing class excluded) is discharged
            res_ok = True
            for k in kf:
                rid = k.get('residual_obligation')
                if rid and results.get(rid, {}).get('status') != 'discharged':
                    res_ok = False
            if res_ok:
                for k in kf:
                    print(f"KNOWN-FINDING: property={prop} {o['id']} {k['what']}")
                    extra['known'].append({'obligation': o['id'], 'what': k['what']})
                results[o['id']]['status'] = 'known-finding'
                continue
        real_violations += 1
        path = os.path.join(vlib.OUT, 'replays', prop, o['id'].replace('/', '_') + '.json')
        rep = dict(property=prop, obligation=o['id'], claim=o.get('desc'), engine=o['engine'],
                   verifier_output=results[o['id']].get('detail'))
        suffix = ''
        if o['engine'] in ('K', 'F'):
            twin = o.get('twin', o['harness'])
            try:
                rp = vlib.kani_replay(scratch, twin, None)
            except Exception as e:  # replay is best effort
                rp = dict(reproduced=False, why=f'replay crashed: {e}', log=traceback.format_exc())
            rep.update(replay_harness=twin, counterexample=rp.get('values'), playback_test=rp.get('test'),
                       reproduced_on_real_code=rp.get('reproduced'), playback_log=rp.get('log'), why=rp.get('why'))
            if not rp.get('reproduced'):
                suffix = ' no-failing-input-found'
                if rp.get('why') == 'native playback did not fail':
                    # the verifier's counterexample, executed natively on the real code, satisfies the
                    # obligation: a tool artefact (e.g. CBMC's handling of bool ordering), not a violation
                    json.dump(rep, open(path, 'w'), indent=1)
                    results[o['id']]['status'] = 'undecided'
                    results[o['id']]['detail'] = 'spurious counterexample: native replay on the real code passes; see ' + path
                    undecided.append(o['id'])
                    real_violations -= 1
                    continue
        else:
            rep.update(reproduced_on_real_code=False, why='Verus gives no counterexample')
            suffix = ' no-failing-input-found'
        json.dump(rep, open(path, 'w'), indent=1)
        print(f"VIOLATION property={prop} replay={path} obligation={o['id']}{suffix}")
        rc = 1
    if rc == 0 and undecided:
        for u in undecided:
            print(f'UNDECIDED property={prop} obligation={u}: {results.get(u, {}).get("detail", "")[:300]}')
        rc = 2
    finish(prop, tier, obligations, results, t0, checker_cmds, assumptions, extra, real_violations)
    n = len(obligations)
    d = sum(1 for r in results.values() if r.get('status') == 'discharged')
    print(f'[{prop}] tier={tier} obligations={n} discharged={d} known={len(extra["known"])} '
          f'violations={real_violations} undecided={len(undecided)} wall={time.time() - t0:.1f}s')
    return rc


def finish(prop, tier, obligations, results, t0, checker_cmds, assumptions, extra, nviol):
    vlib.write_evidence(prop, tier, obligations, results, time.time() - t0, checker_cmds, assumptions, extra, nviol)


if __name__ == '__main__':
    try:
        sys.exit(main())
    except Undecided as e:
        print(f'UNDECIDED: {e}')
        sys.exit(2)
