#!/usr/bin/env python3
"""Print, per claimed property, the obligations the contract tables define (quick / thorough-only, complete / bounded, engines)."""
import sys, os, importlib
HERE = os.path.dirname(os.path.abspath(__file__))
sys.path.insert(0, HERE); sys.path.insert(0, os.path.join(os.path.dirname(HERE), 'contracts'))
tq = tt = 0
for p in ['C01','C02','C03','C04','C05','C06','C07','C08','C09','C10','C11','C12','C13','C14','C15','C16','C17','C18','C19']:
    m = importlib.import_module(p)
    obs = m.OBLIGATIONS
    q = [o for o in obs if o.get('tier', 'quick') == 'quick']
    t = [o for o in obs if o.get('tier', 'quick') != 'quick']
    comp = [o for o in q if o.get('complete')]
    print(p, 'quick', len(q), 'thorough-only', len(t), 'complete', len(comp), 'bounded', len(q) - len(comp),
          ' '.join(sorted(set(o.get('engine', '?') for o in obs))))
    if '-v' in sys.argv:
        for o in obs: print('   ', o['id'], o['engine'], 'complete' if o['complete'] else f"bounded({o['bound']})", o['tier'])
    tq += len(q); tt += len(t)
print('total quick', tq, 'thorough-only', tt)
