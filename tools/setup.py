#!/usr/bin/env python3
"""MANIFEST.setup_cmd: build the dependency caches offline (Kani goto artefacts of the 324-package
dependency graph) so that each check only recompiles the fselect crate itself. Idempotent."""
import os
import sys
import subprocess
sys.path.insert(0, os.path.dirname(os.path.abspath(__file__)))
import vlib

scratch = vlib.make_scratch()
with open(os.path.join(scratch, 'src/main.rs'), 'a') as f:
    f.write('\n#[cfg(kani)]\nmod verif_setup { #[kani::proof] fn setup_probe() { let x: u8 = kani::any(); kani::cover!(true); assert!(x as u32 <= 255); } }\n')
r = vlib.run_kani(scratch, ['verif_setup::setup_probe'], jobs=2, harness_timeout=300)
st = r['results']['verif_setup::setup_probe']['status']
print('kani cache build:', st, f"{r['wall']:.0f}s")
if st != 'SUCCESSFUL':
    print(r['out'][-3000:])
    sys.exit(1)
rc, out, wall = vlib.run(['verus', '--version'])
print(out.strip().split('\n')[0] if out else 'verus: no output')
sys.exit(0 if rc == 0 else 1)
