#!/usr/bin/env python3
"""Confirm a seeded change produced by an independent sub-agent, in its scratch worktree (never /repo):
compiles, the 137 tests pass, the demonstration fails with the change and passes without it.
Usage: seed_confirm.py <PROP> <K>    (reads /tmp/seed/out_<PROP>/patch_<K>.diff etc.)
On success stores /verif/seeded/<PROP>_<K>/{patch.diff,demo.sh,meta.json}."""
import json, os, subprocess, sys, shutil, re
prop, k = sys.argv[1], sys.argv[2]
wave = sys.argv[3] if len(sys.argv) > 3 else '1'     # wave 2 reads /tmp/seed/out2_<PROP> and stores <PROP>_<k+2>
wt = f'/tmp/seed/{prop}'
out = f'/tmp/seed/out_{prop}' if wave == '1' else f'/tmp/seed/out{wave}_{prop}'
if wave == '3':                                      # wave 3: own directory tree /tmp/seed3, stored as <PROP>_<k+4>
    wt, out = f'/tmp/seed3/{prop}', f'/tmp/seed3/out_{prop}'
if wave == '4':                                      # wave 4: /tmp/seed4, stored as <PROP>_<k+6>
    wt, out = f'/tmp/seed4/{prop}', f'/tmp/seed4/out_{prop}'
if wave == '5':                                      # wave 5: /tmp/seed5, stored as <PROP>_<k+8>
    wt, out = f'/tmp/seed5/{prop}', f'/tmp/seed5/out_{prop}'
sid = f'{prop}_{k}' if wave == '1' else f'{prop}_{int(k) + 2 * (int(wave) - 1)}'
def sh(cmd, **kw):
    p = subprocess.run(cmd, shell=True, stdout=subprocess.PIPE, stderr=subprocess.STDOUT, text=True, **kw)
    return p.returncode, p.stdout
log = []
def step(name, cmd, cwd=wt):
    rc, o = sh(cmd, cwd=cwd)
    log.append({'step': name, 'cmd': cmd, 'rc': rc, 'tail': o[-600:]})
    return rc, o
step('reset', 'git checkout -- . && git status --short')
rc, o = step('apply', f'git apply {out}/patch_{k}.diff')
if rc != 0:
    print('patch does not apply', o); sys.exit(1)
rc, o = step('build', 'cargo build --offline 2>&1 | tail -3')
rc, o = step('test', 'cargo test --offline 2>&1 | grep "test result"')
m = re.search(r'(\d+) passed; (\d+) failed', o)
tests_ok = bool(m) and m.group(1) == '137' and m.group(2) == '0'
rc_with, o1 = step('demo_with_change', f'bash {out}/demo_{k}.sh {wt}')
step('revert', 'git checkout -- .')
step('rebuild', 'cargo build --offline 2>&1 | tail -1')
rc_without, o2 = step('demo_without_change', f'bash {out}/demo_{k}.sh {wt}')
ok = tests_ok and rc_with == 1 and rc_without == 0
print(f'{sid}: tests_ok={tests_ok} demo_with={rc_with} demo_without={rc_without} => {"CONFIRMED" if ok else "REJECTED"}')
if ok:
    d = f'/verif/seeded/{sid}'
    os.makedirs(d, exist_ok=True)
    shutil.copy(f'{out}/patch_{k}.diff', f'{d}/patch.diff')
    shutil.copy(f'{out}/demo_{k}.sh', f'{d}/demo.sh')
    meta = json.load(open(f'{out}/meta_{k}.json'))
    meta['confirmed_by_me'] = {'worktree': wt, 'base_commit': sh('git rev-parse HEAD', cwd=wt)[1].strip(), 'steps': log}
    json.dump(meta, open(f'{d}/meta.json', 'w'), indent=1)
sys.exit(0 if ok else 1)
