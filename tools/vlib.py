#!/usr/bin/env python3
"""Shared machinery: scratch copies, injection (append / insert only), Kani and Verus runners,
result parsing, replay, evidence and exit codes. See DESIGN.md section 3."""
import os
import re
import sys
import json
import time
import shutil
import signal
import subprocess
import tempfile
import atexit

sys.path.insert(0, os.path.dirname(os.path.abspath(__file__)))
from extract import Source, AnchorLost, sha  # noqa: E402

VERIF = os.path.dirname(os.path.dirname(os.path.abspath(__file__)))
REPO = os.environ.get('VERIF_REPO', '/repo')
CACHE = os.environ.get('VERIF_CACHE', os.path.join(VERIF, '.cache'))     # VERIF_CACHE: a private build cache for a parallel lane (tools/seed_matrix.py)
KANI_TARGET = os.path.join(CACHE, 'kani-target')
PLAYBACK_TARGET = os.path.join(CACHE, 'playback-target')
SCRATCH_ROOT = os.environ.get('VERIF_SCRATCH', '/tmp')
OUT = os.environ.get('VERIF_OUT', VERIF)      # where evidence/ and replays/ are written (a parallel seed lane writes elsewhere)

ENV = dict(os.environ)
ENV.update({'CARGO_NET_OFFLINE': 'true', 'CARGO_TERM_COLOR': 'never', 'NO_COLOR': '1'})

GLOBAL_TRUSTED = [
    'T1 rustc, Kani MIR->GOTO translation, CBMC 6.11, CaDiCaL; Verus 0.2026.09.13, Z3',
    'T2 std (String, Vec, Option, slices, str::parse, to_lowercase, ends_with, integer/float formatting): executed from real source by CBMC in engine K, assumed by spec in engine V',
    'T3 third-party crates never entered: regex, chrono, chrono-english, zip, git2, serde_json, csv, humansize, sha*, bytecount, tree_magic_mini, uzers, xattr, rbase64, human-time',
    'T4 the operating system: lstat, readdir, canonicalize, read_link, pipes, exit status',
    'T5 the wiring of every extracted fragment into its enclosing method (fragments prove the decision core only)',
]

_scratches = []


def _cleanup():
    for d in _scratches:
        shutil.rmtree(d, ignore_errors=True)


atexit.register(_cleanup)


def _sig(signum, frame):
    _cleanup()
    sys.exit(2)


signal.signal(signal.SIGTERM, _sig)


class Undecided(Exception):
    """Tool limit, lost anchor, compile error of injected text: exit 2, never a violation."""


def make_scratch():
    d = tempfile.mkdtemp(prefix='fselect-verif.', dir=SCRATCH_ROOT)
    _scratches.append(d)
    dst = os.path.join(d, 'crate')
    subprocess.run(['rsync', '-a', '--exclude', 'target', '--exclude', '.git', '--exclude', 'docs',
                    REPO + '/', dst + '/'], check=True)
    return dst


def run(cmd, cwd=None, timeout=None, env=None):
    t0 = time.time()
    try:
        limit = isinstance(cmd, list) and len(cmd) > 1 and cmd[0] == 'cargo' and cmd[1] == 'kani'
        p = subprocess.run(cmd, cwd=cwd, env=env or ENV, stdout=subprocess.PIPE, stderr=subprocess.STDOUT,
                           timeout=timeout, text=True, errors='replace', preexec_fn=_limit_memory if limit else None)
        return p.returncode, p.stdout, time.time() - t0
    except subprocess.TimeoutExpired as e:
        out = e.stdout if isinstance(e.stdout, str) else (e.stdout or b'').decode(errors='replace')
        return -9, out + '\n[verif] TIMEOUT', time.time() - t0


# ------------------------------------------------------------------------------------------------
# Injection: append-only modules and insert-only contract attributes
# ------------------------------------------------------------------------------------------------
def units_of_compile_errors(out, inj):
    """Map rustc error locations in the injected text to the units that contributed it. Returns {unit: first message} or {} when an
    error lies outside injected text (then nothing can be isolated)."""
    offenders = {}
    for m in re.finditer(r'^error(?:\[\w+\])?: (.*)\n\s*--> (src/[^:\n]+):(\d+):', out, flags=re.M):
        msg, rel, line = m.group(1), m.group(2), int(m.group(3))
        unit = None
        if rel in inj.spans:
            for a, b, u in inj.spans[rel]:
                if a <= line <= b:
                    unit = u
        elif rel in inj.appended and line > inj.orig_lines.get(rel, 10 ** 9):
            owners = [u for u in inj.append_owner.get(rel, []) if u]
            unit = owners[0] if len(set(owners)) == 1 else None
        if unit is None:
            return {}
        offenders.setdefault(unit, msg[:200])
    return offenders


class Injector:
    def __init__(self, scratch):
        self.scratch = scratch
        self.appended = {}       # relpath -> [text]
        self.attrs = {}          # relpath -> [(fn name, impl, [attr lines])]
        self.new_files = {}      # relpath -> text
        self.prepended = {}      # relpath -> [line]
        self.spans = {}          # relpath of a generated file -> [(first line, last line, unit)]
        self.append_owner = {}   # relpath -> [unit] parallel to self.appended[relpath]
        self.orig_lines = {}     # relpath -> number of lines before injection
        self.log = []

    def contract(self, rel, fn_name, attr_lines, impl=None):
        self.attrs.setdefault(rel, []).append((fn_name, impl, attr_lines))

    def prepend(self, rel, line):
        if line not in self.prepended.setdefault(rel, []):
            self.prepended[rel].append(line)

    def new_file(self, rel, text):
        # remember which unit contributed which lines of the generated file (per-unit isolation of compile errors)
        before = self.new_files.get(rel, '')
        start = before.count('\n') + 1
        self.new_files[rel] = before + text
        self.spans.setdefault(rel, []).append((start, self.new_files[rel].count('\n') + 1, getattr(self, 'current_unit', None)))

    def append(self, rel, text):
        self.appended.setdefault(rel, []).append(text)
        self.append_owner.setdefault(rel, []).append(getattr(self, 'current_unit', None))

    def apply(self):
        for rel in sorted(set(self.appended) | set(self.attrs) | set(self.prepended)):
            path = os.path.join(self.scratch, rel)
            orig = open(path).read()
            self.orig_lines[rel] = orig.count('\n') + 1
            src = Source(path, orig)
            inserts = []  # (offset, text)
            for fn_name, impl, lines in self.attrs.get(rel, []):
                it = src.fn(fn_name, impl=impl)
                indent = re.match(r'\s*', orig[it['sig_start']:]).group(0).replace('\n', '')
                text = ''.join(f'{indent}#[cfg_attr(kani, {ln})]\n' for ln in lines)
                inserts.append((it['sig_start'], text))
            new = orig
            for off, text in sorted(inserts, reverse=True):
                new = new[:off] + text + new[off:]
            for text in self.appended.get(rel, []):
                new = new + '\n' + text
            for line in self.prepended.get(rel, []):
                new = line + '\n' + new
            # insert-only check: removing inserted lines must give back the original
            self._assert_insert_only(orig, new, rel)
            open(path, 'w').write(new)
            self.log.append(f'{rel}: +{new.count(chr(10)) - orig.count(chr(10))} lines (insert-only verified)')
        for rel, text in self.new_files.items():
            path = os.path.join(self.scratch, rel)
            if os.path.exists(path):
                raise Undecided(f'new file {rel} already exists in the repository')
            open(path, 'w').write(text)
            self.log.append(f'{rel}: new file, {text.count(chr(10))} lines')

    @staticmethod
    def _assert_insert_only(orig, new, rel):
        ol = orig.split('\n')
        nl = new.split('\n')
        i = 0
        for ln in nl:
            if i < len(ol) and ln == ol[i]:
                i += 1
        # the final line of orig may be '' (trailing newline) and get merged; accept i >= len-1
        if i < len(ol) - 1:
            raise Undecided(f'injection into {rel} is not insert-only (matched {i}/{len(ol)} lines)')


# ------------------------------------------------------------------------------------------------
# Kani
# ------------------------------------------------------------------------------------------------
KANI_FLAGS = ['-Z', 'function-contracts', '-Z', 'stubbing', '-Z', 'unstable-options']


def kani_cmd(harnesses, jobs=16, harness_timeout=600):
    cmd = ['cargo', 'kani'] + KANI_FLAGS + ['--harness-timeout', f'{harness_timeout}s', '-j', str(jobs),
                                            '--output-format', 'terse', '--exact']
    for h in harnesses:
        cmd += ['--harness', h]
    return cmd


UNDECIDED_MARKERS = ('unwinding assertion', 'is not currently supported by Kani', 'not currently supported',
                     'recursion unwinding', 'CBMC timed out', 'timed out', 'out of memory', 'unsupported', 'std::bad_alloc',
                     'CBMC failed', 'terminated by signal', 'Killed')
MEM_LIMIT_BYTES = int(os.environ.get('VERIF_MEM_GB', '36')) * 1024 ** 3      # address-space limit per verifier process: a harness that needs more is undecided, not a danger to the machine


def _limit_memory():
    try:
        import resource
        resource.setrlimit(resource.RLIMIT_AS, (MEM_LIMIT_BYTES, MEM_LIMIT_BYTES))
    except Exception:
        pass


def parse_kani(out, harnesses):
    """Parse terse multi-thread output. Returns {harness: dict(status, time, failed, cover, stubs)}"""
    res = {h: dict(status='NOT_RUN', time=None, failed=[], cover=None, stubs=[]) for h in harnesses}
    cur = {}      # thread -> harness
    block = {}    # thread -> lines
    active_thread = None

    def finish(th):
        h = cur.get(th)
        if h is None or h not in res:
            return
        text = '\n'.join(block.get(th, []))
        r = res[h]
        m = re.search(r'VERIFICATION:- (\w+)', text)
        if m:
            r['status'] = m.group(1)
        m = re.search(r'Verification Time: ([0-9.]+)s', text)
        if m:
            r['time'] = float(m.group(1))
        m = re.search(r'\*\* (\d+) of (\d+) cover properties satisfied', text)
        if m:
            r['cover'] = (int(m.group(1)), int(m.group(2)))
        m = re.search(r'\*\* (\d+) of (\d+) failed', text)
        if m:
            r['checks'] = int(m.group(2))
            r['checks_failed'] = int(m.group(1))
        r['failed'] = re.findall(r'Failed Checks: (.*)', text)
        r['raw'] = text[-3000:]

    for line in out.split('\n'):
        m = re.match(r'Thread (\d+): ?(.*)$', line)
        if m:
            th, rest = m.group(1), m.group(2)
            mm = re.match(r'Checking harness (\S+?)\.\.\.$', rest)
            if mm:
                finish(th)
                cur[th] = mm.group(1)
                block[th] = []
            else:
                ms = re.match(r'\s*- (Verified stub|Stub): (.*)', rest)
                if ms and cur.get(th) in res:
                    res[cur[th]]['stubs'].append(ms.group(2).strip())
                block.setdefault(th, []).append(rest)
            active_thread = th
        elif line.startswith('Manual Harness Summary') or line.startswith('Complete - '):
            active_thread = None
        elif active_thread is not None:
            block.setdefault(active_thread, []).append(line)
    for th in list(cur):
        finish(th)
    # single-thread fallback format ("Checking harness X..." without Thread prefix)
    if all(r['status'] == 'NOT_RUN' for r in res.values()):
        parts = re.split(r'^Checking harness (\S+?)\.\.\.$', out, flags=re.M)
        for i in range(1, len(parts) - 1, 2):
            h, text = parts[i], parts[i + 1]
            if h in res:
                cur['x'] = h
                block['x'] = text.split('\n')
                finish('x')
    for h, r in res.items():
        if r['status'] == 'FAILED':
            joined = ' | '.join(r['failed']) + ' ' + r.get('raw', '')
            if any(mk in joined for mk in UNDECIDED_MARKERS) and not any(
                    ('assertion failed' in f or 'OBL' in f or '|r' in f or 'result' in f) for f in r['failed']):
                r['status'] = 'UNDECIDED'
            elif not r['failed'] and not r.get('checks_failed'):
                # the back end stopped without naming a failed check (crash, kill, resource limit): not a verdict
                r['status'] = 'UNDECIDED'
    return res


def run_kani(scratch, harnesses, jobs=16, harness_timeout=600, total_timeout=3000):
    os.makedirs(KANI_TARGET, exist_ok=True)
    env = dict(ENV)
    env['CARGO_TARGET_DIR'] = KANI_TARGET
    cmd = kani_cmd(harnesses, jobs, harness_timeout)
    rc, out, wall = run(cmd, cwd=scratch, timeout=total_timeout, env=env)
    compile_failed = ('error: could not compile' in out or 'error[E' in out or 'error: aborting' in out
                      or 'Kani unexpectedly panicked' in out or 'internal compiler error' in out)
    res = parse_kani(out, harnesses)
    return dict(rc=rc, out=out, wall=wall, compile_failed=compile_failed and all(
        r['status'] == 'NOT_RUN' for r in res.values()), results=res, cmd=' '.join(cmd))


def kani_replay(scratch, harness, workdir_out):
    """Re-run one failing harness with concrete playback, then execute the generated unit test
    natively against the scratch copy of the real code. Returns dict(reproduced, values, test, log)."""
    env = dict(ENV)
    env['CARGO_TARGET_DIR'] = KANI_TARGET
    cmd = ['cargo', 'kani'] + KANI_FLAGS + ['-Z', 'concrete-playback', '--concrete-playback=print',
                                            '--harness-timeout', '900s', '--exact', '--harness', harness]
    rc, out, _ = run(cmd, cwd=scratch, timeout=1800, env=env)
    tests = re.findall(r'```\n(.*?)```', out, flags=re.S)
    # candidates: the playback tests generated for a failing check first; then the ones labelled as a cover - Kani de-duplicates
    # playback tests with identical values, so the failing trace may carry a cover's label; the longest value lists first (the
    # empty trace of an initial `cover!(true)` cannot reach a check behind symbolic input). Running a candidate natively decides.
    cands = [x for x in tests if 'Check for `cover`' not in x]
    cands += sorted([x for x in tests if 'Check for `cover`' in x], key=lambda x: -x.count('vec!['))
    if not cands:
        return dict(reproduced=False, test=None, values=None, log=out[-4000:], why='no counterexample emitted')
    last = None
    for chosen in cands[:4]:
        last = _native_playback(scratch, harness, chosen)
        if last.get('reproduced'):
            return last
    return last


def _native_playback(scratch, harness, chosen):
    m = re.search(r'fn (kani_concrete_playback_\w+)\(', chosen)
    tname = m.group(1)
    values = re.findall(r'//\s*(.*)\n\s*vec!\[([^\]]*)\]', chosen)
    # inject the unit test into the module that holds the harness (path derived from the harness name)
    parts = harness.split('::')
    modname = parts[-2]
    target_file = None
    for cand in ['/'.join(parts[:-2]) + '.rs', '/'.join(parts[:-2]) + '/mod.rs', '/'.join(parts[:-1]) + '.rs', 'main.rs']:
        p = os.path.join(scratch, 'src', cand)
        if cand and os.path.isfile(p) and (re.search(r'\bmod\s+' + modname + r'\s*\{', open(p).read()) or cand.endswith(modname + '.rs')):
            target_file = p
            break
    if target_file is None:
        return dict(reproduced=False, test=chosen, values=values, log='harness source not found', why='internal')
    text = open(target_file).read()
    src = Source(target_file, text)
    best = None
    for mm in re.finditer(r'\bmod\s+' + modname + r'\s*\{', src.mask):
        o = mm.end() - 1
        best = (o, src.match_close(o))
    if best is None:
        # harness lives at the top level of its own file (e.g. src/verif_frag.rs)
        best = (0, len(text))
    new = text[:best[1]] + '\n' + chosen + '\n' + text[best[1]:]
    open(target_file, 'w').write(new)
    env2 = dict(ENV)
    env2['CARGO_TARGET_DIR'] = PLAYBACK_TARGET
    cmd2 = ['cargo', 'kani', 'playback', '-Z', 'concrete-playback', '--', tname]
    rc2, out2, _ = run(cmd2, cwd=scratch, timeout=1800, env=env2)
    open(target_file, 'w').write(text)
    reproduced = ('test result: FAILED' in out2 or 'panicked at' in out2) and tname in out2
    starved = 'concrete_playback::any_raw_internal' in out2 or 'Not enough det vals' in out2
    if reproduced and starved:
        # the emitted values (e.g. the empty trace of the initial cover) end before the failing check: the native run stopped
        # inside Kani's value supply, not in the code under contract - that is no reproduction
        reproduced = False
    passed = bool(re.search(r'test result: ok\. 1 passed', out2))
    errs = '\n'.join(m.group(0) for m in re.finditer(r'^error(?:\[E\d+\])?:.*(?:\n.*){0,7}', out2, flags=re.M))
    why = None if reproduced else ('native playback did not fail' if passed else 'the emitted playback values end before the failing check' if starved else 'native playback could not be built or run')
    return dict(reproduced=reproduced, test=chosen, values=values, log=(errs[:3000] + '\n...\n' + out2[-3000:]), test_name=tname,
                why=why)


# ------------------------------------------------------------------------------------------------
# Verus
# ------------------------------------------------------------------------------------------------
def run_verus(path, timeout=900, extra=None):
    cmd = ['verus', path, '--output-json', '--time', '--multiple-errors', '50'] + (extra or [])
    rc, out, wall = run(cmd, cwd=os.path.dirname(path), timeout=timeout)
    # stdout mixes JSON and diagnostics (stderr merged); find the JSON object
    js = None
    k = out.find('{\n')
    while k >= 0:
        try:
            js, _ = json.JSONDecoder().raw_decode(out[k:])
            break
        except Exception:
            k = out.find('{\n', k + 1)
    return dict(rc=rc, out=out, wall=wall, json=js, cmd=' '.join(cmd))


def verus_failed_functions(out, file_text):
    """Map each Verus error to the enclosing function of its primary span. Returns
    [(fn_name, kind, line, message)]."""
    res = []
    lines = file_text.split('\n')
    # function start lines
    starts = []
    for i, ln in enumerate(lines):
        m = re.match(r'\s*(?:pub\s+)?(?:open\s+|closed\s+)?(?:spec\s+|proof\s+|exec\s+)?fn\s+(\w+)', ln)
        if m:
            starts.append((i + 1, m.group(1)))
    for m in re.finditer(r'^error(?:\[\w+\])?: (.*)\n\s*--> [^:\n]+:(\d+):(\d+)', out, flags=re.M):
        msg, line = m.group(1), int(m.group(2))
        fn = None
        for s, name in starts:
            if s <= line:
                fn = name
        res.append((fn, msg, line))
    return res


# ------------------------------------------------------------------------------------------------
# Findings, evidence, exit
# ------------------------------------------------------------------------------------------------
def load_known():
    p = os.path.join(VERIF, 'known_findings.json')
    if not os.path.exists(p):
        return []
    return json.load(open(p)).get('findings', [])


def write_evidence(prop, tier, obligations, results, wall, checker_cmds, assumptions, extra, violations):
    """obligations: list of dict(id, engine, complete, bound, desc, sample); results: id -> dict"""
    os.makedirs(os.path.join(OUT, 'evidence'), exist_ok=True)
    n = len(obligations)
    discharged = sum(1 for o in obligations if results.get(o['id'], {}).get('status') == 'discharged')
    unb = sum(1 for o in obligations if results.get(o['id'], {}).get('status') == 'discharged' and o.get('complete'))
    obl_out = []
    for o in obligations:
        r = results.get(o['id'], {})
        obl_out.append({
            'id': o['id'], 'engine': o['engine'], 'backend': 'z3 (via Verus)' if o['engine'] == 'V' else 'cbmc 6.11 + cadical (via Kani 0.68)',
            'kind': 'complete (no bound)' if o.get('complete') else 'bounded: ' + str(o.get('bound')),
            'claim': o.get('desc'), 'harness': o.get('harness'),
            'result': r.get('status', 'not-run'), 'solver_s': r.get('time'), 'cover': r.get('cover'),
            'detail': r.get('detail'),
        })
    ev = {
        'property_id': prop, 'tier': tier, 'seed': int(os.environ.get('VERIF_SEED', '0') or 0),
        'level': 'proof',
        'coverage': {
            'obligations': n, 'discharged': discharged,
            'discharged_unbounded': unb, 'discharged_bounded': discharged - unb,
            'checker_cmd': ' ; '.join(checker_cmds) or 'none',
            'trusted_base': GLOBAL_TRUSTED + extra.get('trusted', []),
            'samples': [{'obligation': o['id'], 'claim': o.get('desc'), 'harness': o.get('harness')} for o in obligations[:6]],
            'obligation_list': obl_out,
            'functions_under_contract': extra.get('functions', []),
            'dropped_by_extraction': extra.get('dropped', []),
            'not_covered': extra.get('not_covered', []),
            'canaries': extra.get('canaries', []),
            'known_findings_reported': extra.get('known', []),
            'injection_log': extra.get('injection', []),
            'exhaustive': False,
        },
        'assumptions': assumptions,
        'wall_s': round(wall, 2),
        'violations': violations,
    }
    with open(os.path.join(OUT, 'evidence', prop + '.json'), 'w') as f:
        json.dump(ev, f, indent=1)
    return ev
