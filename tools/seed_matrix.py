#!/usr/bin/env python3
"""Run every confirmed seeded change against the check of the property it targets, several at a time.
Each lane works on its own COPY of /repo (the change is applied to the copy with `git apply`, exactly as seed_run.py applies it to /repo),
with a private build cache and output directory, so that /repo, /verif/evidence and /verif/.cache are not touched.
Results: seeded/<id>/last_run.json and a summary on stdout. Usage: seed_matrix.py [--lanes N] [--tag T] [ID ...]   (--tag: private cache names, for a second run at the same time)"""
import json, os, shutil, subprocess, sys, tempfile, threading, queue
VERIF = os.path.dirname(os.path.dirname(os.path.abspath(__file__)))
args = sys.argv[1:]
lanes = 4
if '--lanes' in args:
    i = args.index('--lanes'); lanes = int(args[i + 1]); del args[i:i + 2]
tag = ''
if '--tag' in args:
    i = args.index('--tag'); tag = args[i + 1]; del args[i:i + 2]
ids = args or sorted(os.listdir(os.path.join(VERIF, 'seeded')))
q = queue.Queue()
for s in ids: q.put(s)
lock = threading.Lock()
summary = {}
def sh(cmd, env=None):
    p = subprocess.run(cmd, shell=True, stdout=subprocess.PIPE, stderr=subprocess.STDOUT, text=True, env=env)
    return p.returncode, p.stdout
def lane(k):
    base = tempfile.mkdtemp(prefix=f'seedlane{k}.', dir='/tmp')
    cache = os.path.join('/tmp', f'seedlane-cache-{tag}{k}')       # kept between seeds of this lane, removed at the end
    try:
        while True:
            try: sid = q.get_nowait()
            except queue.Empty: break
            d = os.path.join(VERIF, 'seeded', sid)
            copy = os.path.join(base, 'repo')
            shutil.rmtree(copy, ignore_errors=True)
            sh(f'git clone -q --no-hardlinks /repo {copy}')
            rc, o = sh(f'git -C {copy} apply {d}/patch.diff')
            if rc != 0: rc, o = sh(f'git -C {copy} apply -C1 {d}/patch.diff')
            if rc != 0: rc, o = sh(f'git -C {copy} apply --3way {d}/patch.diff')
            prop = sid.split('_')[0]
            if rc != 0:
                res = {prop: {'rc': 3, 'lines': ['APPLY FAILED ' + o[:300]]}}
            else:
                out = os.path.join(base, 'out'); shutil.rmtree(out, ignore_errors=True); os.makedirs(out)
                env = dict(os.environ, VERIF_REPO=copy, VERIF_CACHE=cache, VERIF_OUT=out)
                rc, o = sh(f'cd {VERIF} && python3 tools/run_check.py {prop} --tier quick', env=env)
                lines = [l[:260] for l in o.split('\n') if l.startswith(('VIOLATION', 'UNDECIDED', '['))]
                res = {prop: {'rc': rc, 'lines': lines}}
            json.dump(res, open(os.path.join(d, 'last_run.json'), 'w'), indent=1)
            with lock:
                summary[sid] = res[prop]
                print(f'== {sid}: rc={res[prop]["rc"]} ' + ' | '.join(l[:150] for l in res[prop]['lines'][-3:]), flush=True)
    finally:
        shutil.rmtree(base, ignore_errors=True)
        shutil.rmtree(cache, ignore_errors=True)
ts = [threading.Thread(target=lane, args=(k,)) for k in range(lanes)]
for t in ts: t.start()
for t in ts: t.join()
c = {0: 0, 1: 0, 2: 0, 3: 0}
for s, r in summary.items(): c[r['rc']] = c.get(r['rc'], 0) + 1
print(f'SUMMARY caught(rc=1)={c[1]} undecided(rc=2)={c[2]} missed(rc=0)={c[0]} apply-failed={c[3]}')
