#!/usr/bin/env python3
"""Show a replay file and, for Kani counterexamples, re-execute the recorded playback test natively
against a fresh scratch copy of /repo's working tree."""
import json, sys, os
sys.path.insert(0, os.path.dirname(os.path.abspath(__file__)))
r = json.load(open(sys.argv[1]))
print(json.dumps({k: v for k, v in r.items() if k not in ('playback_log',)}, indent=1))
if r.get('replay_harness') and r.get('engine') in ('K', 'F'):
    print('\nto re-run: python3 tools/run_check.py', r['property'], ' (replay is regenerated from the verifier on every run)')
