CLAIMED = {
 "C04": dict(engine="K+F", ref="5/C04",
   technique="Kani function contracts (requires/ensures, proof_for_contract, stub_verified) on the real mode.rs, CBMC over all u32; capability table / layout fragments and check_capability over all u32; has_extension and is_hidden on bounded names",
   text="Every mode decoder behind the permission / suid / sgid / file-type columns and the 10-character mode string is "
        "proved against a POSIX/`ls -l` specification for all 2^32 st_mode values (no bound, no loop unwinding limit): leaf "
        "predicates by their own contract, composites and the exactly-one-type lemma against the callees' contracts. This is the "
        "part of C04 that is pure computation; the lstat/content side is the OS and is not claimed. Also: capability bit k names capability k of linux/capability.h for all 41, vfs_cap_data layout, flag letters; extension-class suffix test and dot-file test on bounded names.",
   note="Trusted: Kani/CBMC, rustc, std::fs::Metadata::mode (stubbed by a symbolic value), zip-entry mode source. Not covered: "
        "size/uid/gid/inode/mtime/xattr/digest/line_count columns, name decomposition, extension classes (see evidence.not_covered)."),

 "C01": dict(engine="F+V", ref="5/C01",
   technique="Kani full-domain harnesses on the depth-window fragments of visit_dir and on the verbatim bodies of the per-root loop, the visit_dir prologue and ok_to_visit_dir hosted on shim types; Verus contract (recursive spec of the documented option table + loop invariant) on the real parse_root_options",
   text="The three arithmetic pieces of the depth window - level formula, report gate, descend gate - are extracted from visit_dir on "
        "every run and proved for all u32 values against the statement's window (level 1 = directly inside the root; reported iff "
        "min/max satisfied), plus the induction step that combines them. Unbounded over the integers involved; the traversal skeleton "
        "that uses the gates is not verified. Added: every root is traversed once with its own options whatever an earlier root left; a directory is skipped up front only when following symlinks and already visited; ok_to_visit_dir enters a directory iff its own inode is unseen and it is not an unfollowed symlink. Verus, real parse_root_options, every token vector: an option list of depth options (mindepth N, maxdepth N, depth N) yields exactly those depths (defaults 0/0 = unlimited). Bounded: the WHOLE real visit_dir (verbatim on a scripted six-node, three-level file system) hands an entry to check_file exactly once iff its level lies in the window, for all 16 windows 0..3 x 0..3 and both traversal modes, in dfs / bfs order.",
   note="Trusted: canonical_path/calc_depth, read_dir and the OS. Not covered: other trees than the scripted one, symlink cycles, I/O errors, ignore files."),
 "C02": dict(engine="F+V+K", ref="5/C02",
   technique="Kani full-domain harnesses on the typed comparison arms of conforms and the BETWEEN desugaring (extracted each run) + Verus contract on the real parse_func_scalar (quoted literal)",
   text="The Int / Float / Bool / DateTime comparison tables of conforms (whole match arms incl. operand binding) and the BETWEEN "
        "desugaring of parse_cond are proved equal to the documented relation for every operator and all i64 / non-NaN f64 / bool "
        "operands (no bound). Verus: a quoted token is parsed as a text value (real parse_func_scalar) and a token starting at a quote is lexed as a text literal (real Lexer::next_lexem), for every input. Bounded witnesses: the String arm of conforms (whole block on a shim world with an oracle regex), operand evaluation, an empty quoted literal reaches the parser.",
   note="Trusted: get_field_value (which attribute), Variant coercions, the regex engine, wiring of the fragments (T5)."),
 "C03": dict(engine="K+F+V", ref="5/C03",
   technique="Kani function contract on Op::negate + full-domain harnesses on comparison arms, logical block, NOT BETWEEN; Verus proof of De Morgan on the real negate_expr_op (unbounded tree depth)",
   text="Op::negate is proved (contract) to return the documented complement for all 14 operators; for every comparison operator and "
        "all operands each typed arm under negate(op) is the logical negation of the arm under op; the logical block computes AND/OR; "
        "NOT BETWEEN is the complement of BETWEEN for all i64 triples. Verus (unbounded): De Morgan on the real negate_expr_op for condition trees of any depth, OR / AND chain construction, bracket pairing in parse_paren. Bounded witnesses: negative string operators are complements on the String arm of conforms.",
   note="Trusted: precedence as a grammar-level statement, the regex engine; float arm stated for non-NaN operands."),
 "C06": dict(engine="F+V", ref="5/C06",
   technique="Kani full-domain harnesses on the two early-exit conditions of visit_dir (extracted each run) + Verus contract on the real parse_limit",
   text="Both LIMIT early-exit conditions (directory loop, archive-member loop) are proved to be exactly "
        "!buffered && limit > 0 && found >= limit for all inputs: never taken for ordered/aggregated output or limit 0. The real parse_limit: absent LIMIT = 0 = unlimited, `limit N` = the u32 N denotes or an error (Verus). An entry is counted in `found` exactly once iff there is no WHERE or its WHERE holds (prologue of check_file, all inputs); the assembled Query carries the parsed limit, 0 staying unlimited except for a constant-only select list (Parser::parse tail, all outcomes).",
   note="`order by .. limit N`: the real TopN (verbatim on array-backed stand-ins for BTreeMap / Vec) is proved for every assignment of keys (4 values: all tie patterns) to 3 rows and every limit 0..3 to keep exactly min(N, M) distinct rows whose key sequence is the first N keys of the sorted list, ties at the cut either way; it orders by Ord alone (a key type whose derived PartialOrd disagrees, like Criteria, is handled). Bounded: 3 rows. The WHOLE real visit_dir on a scripted file system (with a two-member zip archive) yields exactly min(L, M) rows - a prefix of the unlimited traversal - for every limit, in both traversal modes, also when the limit is reached inside an archive; a buffered query is never cut short. Trusted: the real B-tree, the OS."),
 "C07": dict(engine="V+F", ref="5/C07",
   technique="Verus contracts on the real get_buffer_sum (loop invariant, unbounded rows) and Expr::has_aggregate_function (recursive spec, any depth / width); Kani on the AVG division, on get_variance / get_mean / get_buffer_sum verbatim on a shim row world (powi stubbed), on the divisor fragments, on the prologue and column loops of check_file and on the ungrouped aggregate output block (string-free shim worlds)",
   text="SUM: the real get_buffer_sum, extracted verbatim, is proved to return the mathematical sum over any number of buffered rows of the "
        "number the key column denotes (0 when absent or unparsable), without overflow when the sum fits usize. AVG: the division in "
        "get_mean is the real quotient sum/count (bounded domain sum < 256, count <= 16; labelled bounded). VAR / STDDEV: get_variance, get_mean, get_buffer_sum (whole bodies verbatim on a shim row world, powi(2) stubbed by x*x) give the textbook population / sample variance on witness columns incl. a non-integer mean and large values with a small spread (bounded); the divisor handed to get_variance is n for _POP and n-1 for _SAMP for every row count (complete). A query is an aggregate query iff an aggregate function occurs anywhere in a column expression (Verus) and the aggregate functions are exactly the documented nine (Kani, whole enum); WHERE is applied before an entry is counted or buffered; column and grouping-key values reach the per-entry map the aggregates read; an ungrouped aggregate query prints exactly one row holding every column in order.",
   note="Assumed: String keys obey vstd's hash-table key model; str::parse::<usize> is total; powi(2) = x*x. Not covered: MIN/MAX/COUNT arms, sqrt of STDDEV, buffering."),
 "C10": dict(engine="V+F", ref="5/C10",
   technique="Verus contracts on 19 real parser methods and on the real Lexer::next_lexem / Lexer::new: panic freedom, cursor frame, Ok => Some, and TERMINATION (decreases clauses), modular and unbounded; Kani harnesses on the exit-status mapping and the ORDER BY arms",
   text="19 real methods of impl Parser (incl. parse_fields and parse_root_options), extracted verbatim on every run, are proved free of unwrap-on-None/Err, out-of-range indexing and usize underflow AND terminating (measure: tokens left, then recursion level; every loop iteration consumes a token) for every token vector, each against its callees' contracts (cursor never moves backwards, token vector unchanged, Ok implies Some and progress). error_count -> exit status is proved to be 0 iff no error else 1 for all i32, and the parse-error arm to return 2. The real Lexer::next_lexem, extracted verbatim, is proved panic-free (unwraps, usize / isize cursor arithmetic) and terminating for every argument vector, and every token it returns consumes input. The tail of Parser::parse (verbatim on a scripted shim Parser, all outcomes): an error in any clause or a left-over token gives Err and no Query; parse_output_format: `into W` is the format W denotes or an error (Verus); a date that is not in the calendar is an error, never a panic (calendar tail of parse_datetime on a shim calendar).",
   note="Not covered: parse_roots, Parser::parse, looks_like_date / looks_like_expression (external stubs), evaluator-side literal errors (regex, dates), termination of the search. Assumption A1: cursor < usize::MAX; a String has fewer than isize::MAX characters."),
 "C13": dict(engine="F", ref="5/C13",
   technique="Kani full-domain harnesses on the DateTime arm of conforms (verbatim, shim operands with sub-second part) and on the time-of-day block of parse_datetime extracted each run",
   text="For all i64 entry times and all intervals a <= b the date arm is proved to implement = / != / < / > / <= / >= exactly as the "
        "statement defines them (whole seconds, whatever the sub-second part of the entry time), exactly one of <, =, > holds, and a literal with day / hour / minute / second precision denotes start padded with 0 and finish padded with 23:59:59; start and finish lie on the calendar day written (calendar tail of parse_datetime on a shim calendar, all y/m/d); an unquoted word is kept together as a date iff it starts with a year 1970..2999 optionally followed by a month 01..12 (looks_like_date on shim captures, all values).",
   note="Trusted: the regex captures and chrono; start <= finish assumed."),
 "C15": dict(engine="V+F+K", ref="5/C15",
   technique="Verus one-step tree assertions in the real parse_mul_div / parse_add_sub; Kani on the verbatim Display::fmt of Expr (shim Formatter), get_column_expr_value (shim world), the calc table and Variant literal coercions; bounded witnesses",
   text="Unbounded (Verus): * / % and + - chains build left-associative nodes carrying the operator just read. Bounded (Kani witnesses): the cache key text differs for expressions that differ in operator, brackets, later arguments or sign; a leading minus applies to columns, functions and literals; negative and fractional right-hand values are compared as numbers; operator dispatch of + - * / and totality of / and %.",
   note="Not covered: value of %, evaluation of nested nodes by get_column_expr_value, lexer operator detection, arithmetic inside ORDER BY without WHERE."),

 "C08": dict(engine="F+V", ref="5/C08",
   technique="Kani on the real partition_output_buffer and the grouped output block of list_search_results (both verbatim on a heap-free shim world: token texts, array-backed HashMap / Vec / Rc stand-ins with the std method names) with symbolic key values; Kani on the grouping-key loop of check_file; Verus on the real parse_group_by",
   text="Bounded (3 buffered rows, one grouping expression, key values from a 2-element domain - every assignment, symbolically): partition_output_buffer yields one group per distinct key value, every row in the group of its own key and in no other, in buffer order; the grouped output block writes exactly one row per distinct key value, showing the key and the aggregate computed over the rows of that group only, the group COUNTs adding up to the ungrouped COUNT, with separators only between rows; ORDER BY over an aggregate sorts the group rows numerically (2 witnesses). The grouping keys (also unselected ones) are evaluated for every accepted entry and reach the row map the partition reads. parse_group_by is panic-free and terminating for every token vector (Verus).",
   note="Bounded (3 rows, 1 grouping expression, columns key + COUNT). Trusted: hashing (std HashMap replaced by an association-list stand-in), stability of sort_by, the aggregate implementations (C07)."),

 "C18": dict(engine="F", ref="5/C18",
   technique="Kani on the WHOLE real visit_dir and ok_to_visit_dir, copied verbatim on every run onto a scripted, heap-free file system with symbolic links (node ids as paths; read_dir / read_link / canonicalize scripted)",
   text="Bounded (one scripted tree of ten nodes, both traversal modes): with `symlinks` the search goes through a link with an absolute target to an ancestor (a cycle) and through a link whose target is relative to the directory of the link and lies outside - and less deep than - the root; every entry under the root or behind a link is listed exactly once, the ancestor is not replayed, the traversal terminates (unwinding assertions hold) and no error is counted; without the option links are listed once and no row comes from behind them. ok_to_visit_dir enters a directory iff its own inode is unseen and it is not a link or links are followed (all inodes).",
   note="Bounded: one scripted link graph. Two genuine defects were found while writing this world and repaired (relative link targets resolved against the working directory; arithmetic overflow when a link leads less deep than the root). Not covered: mutual links, chains, self-links, dangling links, the OS."),

 "C05": dict(engine="V+F+K", ref="5/C05",
   technique="Kani on the verbatim bodies of Criteria::cmp / cmp_at (shim receiver types), on the positional / DESC arms of parse_order_by and on is_numeric_field over the whole Field enum; Verus contract on the real parse_order_by",
   text="Criteria::cmp is proved to be the lexicographic order over <= 3 keys and cmp_at to dispatch numeric / date / string keys and to reverse for desc, for all per-key outcomes; every documented integer column is proved numeric, date columns chronological, text columns string-ordered over the whole Field enum; a positional key k selects column k or is rejected. On the real parse_order_by: key list and direction list have equal length on every successful parse, positional keys are "
        "proved in range before indexing and `desc` without a preceding key is rejected (no underflow), for every token vector. Verus, key expressions of any depth: a key is compared numerically iff a numeric column or function occurs in it on either side of an operator. Per-key comparison: two sizes exactly (below 2^53), negative / fractional expression values as real numbers; sort key i of a buffered row is the value of ORDER BY expression i (check_file loop on a shim world).",
   note="The ORDER BY buffer itself: the real TopN (struct + impl verbatim, std BTreeMap / Vec replaced by array-backed stand-ins with the same method names) is proved, for every assignment of keys to 3 rows, to emit the rows in non-decreasing key order, each once, equal keys in insertion order (bounded: 3 rows). Not covered: larger buffers, the real B-tree, date key comparison (chrono)."),

 "C12": dict(engine="F+K", ref="5/C12",
   technique="Kani harnesses on the glob and LIKE escape tables (alternation literal + arm table) extracted from glob.rs each run, exhaustive over printable ASCII; the whole String arm of conforms verbatim on a shim world with an oracle Regex (bounded witnesses)",
   text="For each of the 95 printable ASCII characters the image under capture-then-map of convert_glob_to_pattern / convert_like_to_pattern "
        "is proved to be the wildcard expansion, or backslash+character for every regex metacharacter, or the character itself; no captured "
        "token reaches the error arm. Exhaustive over the property's alphabet. Also: the regex cache keys of the glob / regex / LIKE arms are distinct for the same text; operator spellings and the negation table (cross-listed). Bounded: on 20 witness (pattern, subject) pairs incl. prefix/suffix overlap, empty run, letter case and regex metacharacters the String arm of conforms answers as the property demands for = != === !== =~ !=~ like notlike, negatives being complements, and compiles only the right translation of the pattern.",
   note="Trusted: regex::Regex (replace_all, matching), anchoring and (?i)."),
 "C14": dict(engine="F", ref="5/C14",
   technique="Kani harnesses on the suffix ladder of parse_filesize extracted rung by rung each run",
   text="Every documented unit (k kib kb m mib mb g gib gb t tib tb b) is proved to have a rung that is reached first (no shadowing) and strips "
        "exactly its own length; each rung's multiplier is proved equal to the documented one for all integers n < 2^16 (bounded; "
        "f64 multiplication).",
   note="Multiplier obligations are bounded (n < 65536; thorough tier n < 2^32 resp. 2^20). The real whole parse_filesize is run on 33 witness literals; the option table and the unit-text tail of format_filesize on the documented specifiers / 8 renderings. Trusted: lower-casing, slicing, str::parse, humansize. Not covered: fractional values in general."),

 "C09": dict(engine="K+F", ref="5/C09",
   technique="Kani harnesses on escape_html (real function), on the format templates of the HTML and flat formatters (format! replaced by concatenation), and on the verbatim bodies of write_row and the ordered-output loop hosted on shim types; bounded values",
   text="escape_html is proved on every single ASCII character (no raw & < >, decodes to itself) and on multi-character witnesses; the cell "
        "templates of the HTML and tabs/lines/list writers (extracted from the format! calls each run) and the frame literals are "
        "checked on concrete values. All bounded, labelled as such.",
   note="format! itself does not terminate in CBMC (even concrete), so its semantics for plain {} templates is assumed. Not covered: JSON/CSV "
        "encoding (serde_json, csv), row-separator protocol in the searcher paths."),

 "C11": dict(engine="K+F+V", ref="5/C11",
   technique="Kani on the real alias tables (Op::from, ArithmeticOp::from, Field::from_str, Function::from_str, OutputFormat::from, is_argumentless_function) over every documented spelling and on the keyword table of Lexer::next_lexem copied verbatim onto a shim lexer; Verus contracts on the real parse_root_options (documented option table as a recursive spec), parse_function (optional parentheses), parse_paren (bracket styles) and Lexer::next_lexem (context flags)",
   text="Every documented operator / arithmetic / column spelling, in lower and upper case, is proved to map to the same value as its canonical "
        "spelling (finite tables, enumerated completely); the lexer's keyword table is proved to classify every documented operator word, "
        "arithmetic word and clause keyword, in three casings; the BETWEEN guard of parse_cond is case-insensitive. Function and output-format names likewise. "
        "Verus, for every token vector: an option list of documented root options (long names and aliases, any letter case) yields exactly the documented RootOptions; `()` after an argument-less function is optional; "
        "round and curly brackets are closed by their own kind and return the inner expression unchanged; after a token the lexer's bracket / operator context flags are the same for both bracket styles; commas and the word `select` are skipped by parse_fields without effect. Bounded (token sequences): the real parse_roots gives every root exactly the options written after it, ends the list at GROUP BY in any letter case, and lets rx / regexp open an option list.",
   note="Not covered: whitespace-split invariance as a relation between two lexer runs, home-directory expansion in parse_roots. Seen and not repaired: a root passed as its own shell word is taken whole, so `from /a,/b` split at whitespace differs from the one-argument form (by design of the lexer, see DESIGN.md 8)."),

 "C16": dict(engine="F", ref="5/C16",
   technique="Kani on 16 arms of function::get_value and on the body of get_function_value copied verbatim against shim types, concrete witness arguments (bounded)",
   text="SUBSTR / LENGTH / COALESCE / CONCAT / CONCAT_WS / REPLACE / TRIM / LTRIM / RTRIM / LOWER / UPPER / INITCAP / ABS / LEAST / GREATEST / SQRT arms, extracted verbatim each run, are executed by CBMC on about 50 concrete witnesses covering 1-based and negative positions, optional length, character (not byte) length, non-ASCII letters and ill-typed arguments (empty value, no panic); F(G(x), a, b) applies F to the values of its arguments in order; YEAR / MONTH / DAY / DOW arms for every date on a shim calendar value (DOW 1 = Sunday .. 7 = Saturday; complete); an empty string argument reaches the parser. Otherwise a bounded stand-in: labelled as such.",
   note="Concrete witnesses only. Not covered: base64 (Kani ICE on the rbase64 crate), BIN/HEX/OCT (format!), POWER/LOG/LN/EXP (unmodelled float intrinsics), date functions (chrono)."),
}
PENDING = "no contract-based check built yet in this revision (planned: DESIGN.md section 5)"
NOT_APPLICABLE = {
 
 
 "C17": "fault isolation is about read_dir/open failures, closed pipes and the process exit status (OS behaviour); the only closed fragment (error_count -> status) is proved under C10 and does not decide C17",
 "C19": "zip member enumeration is the zip crate over real files; its LIMIT gate is proved under C06 and mode decoding under C04, neither decides C19",
 "C20": "ignore matching is the regex crate (Kani ICE) and libgit2 over real repositories; the conversion functions cannot be executed by Kani nor specified in Verus",
}
