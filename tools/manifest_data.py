CLAIMED = {
 "C04": dict(engine="K", ref="5/C04",
   technique="Kani function contracts (requires/ensures, proof_for_contract, stub_verified) on the real mode.rs, CBMC over all u32",
   text="Every mode decoder behind the permission / suid / sgid / file-type columns and the 10-character mode string is "
        "proved against a POSIX/`ls -l` specification for all 2^32 st_mode values (no bound, no loop unwinding limit): leaf "
        "predicates by their own contract, composites and the exactly-one-type lemma against the callees' contracts. This is the "
        "part of C04 that is pure computation; the lstat/content side is the OS and is not claimed.",
   note="Trusted: Kani/CBMC, rustc, std::fs::Metadata::mode (stubbed by a symbolic value), zip-entry mode source. Not covered: "
        "size/uid/gid/inode/mtime/xattr/digest/line_count columns, name decomposition, extension classes (see evidence.not_covered)."),
}
PENDING = "no contract-based check built yet in this revision (planned: DESIGN.md section 5)"
NOT_APPLICABLE = {
 "C01": PENDING, "C02": PENDING, "C03": PENDING, "C05": PENDING, "C06": PENDING, "C07": PENDING, "C09": PENDING,
 "C10": PENDING, "C11": PENDING, "C12": PENDING, "C13": PENDING, "C14": PENDING, "C15": PENDING, "C16": PENDING,
 "C08": "GROUP BY partitioning lives in iterator-adapter closures over HashMap<Vec<String>, Vec<HashMap<String,String>>>: Verus rejects the adapters, CBMC does not finish two string-keyed rows; no closed fragment carries the partition property (DESIGN.md section 6)",
 "C17": "fault isolation is about read_dir/open failures, closed pipes and the process exit status (OS behaviour); the only closed fragment (error_count -> status) is proved under C10 and does not decide C17",
 "C18": "termination and at-most-once traversal over arbitrary symlink graphs is a whole-history property of visit_dir plus the OS namespace; ok_to_visit_dir needs a DirEntry that cannot be constructed by a verifier",
 "C19": "zip member enumeration is the zip crate over real files; its LIMIT gate is proved under C06 and mode decoding under C04, neither decides C19",
 "C20": "ignore matching is the regex crate (Kani ICE) and libgit2 over real repositories; the conversion functions cannot be executed by Kani nor specified in Verus",
}
