#!/usr/bin/env python3
"""Rust-aware structural scanner used to locate real code in /repo by *structural anchors*
(never by line number) and to copy its text verbatim.

The scanner does not parse Rust. It builds a *mask* of the source: same length, with the contents
of comments, string literals, raw strings, byte strings and char literals replaced by spaces, so
that brace matching and anchor searches cannot be fooled by text inside literals, while every
offset in the mask is an offset in the original source.

Every failure to find an anchor raises AnchorLost; callers turn that into exit status 2
("undecided"), never into a violation.
"""
import re
import hashlib


class AnchorLost(Exception):
    pass


def sha(text):
    return hashlib.sha256(text.encode()).hexdigest()[:16]


def mask_source(src):
    """Return a string of len(src) where comment / literal contents are blanked."""
    out = list(src)
    n = len(src)
    i = 0

    def blank(a, b):
        for k in range(a, b):
            if out[k] != '\n':
                out[k] = ' '

    while i < n:
        c = src[i]
        if src.startswith('//', i):
            j = src.find('\n', i)
            if j < 0:
                j = n
            blank(i, j)
            i = j
        elif src.startswith('/*', i):
            depth = 1
            j = i + 2
            while j < n and depth:
                if src.startswith('/*', j):
                    depth += 1
                    j += 2
                elif src.startswith('*/', j):
                    depth -= 1
                    j += 2
                else:
                    j += 1
            blank(i, j)
            i = j
        elif c == '"' or (c in 'b' and i + 1 < n and src[i + 1] == '"' and not _ident_before(src, i)):
            if c != '"':
                i += 1
            j = i + 1
            while j < n and src[j] != '"':
                if src[j] == '\\':
                    j += 1
                j += 1
            blank(i + 1, j)
            i = j + 1
        elif c == 'r' and not _ident_before(src, i) and re.match(r'r#*"', src[i:i + 12]):
            m = re.match(r'r(#*)"', src[i:i + 12])
            hashes = m.group(1)
            start = i + len(m.group(0))
            end = src.find('"' + hashes, start)
            if end < 0:
                end = n
            blank(start, end)
            i = end + 1 + len(hashes)
        elif c == "'":
            # char literal or lifetime
            m = re.match(r"'(\\.[^']*|[^'\\])'", src[i:i + 12])
            if m:
                blank(i + 1, i + len(m.group(0)) - 1)
                i += len(m.group(0))
            else:
                i += 1
        else:
            i += 1
    return ''.join(out)


def _ident_before(src, i):
    return i > 0 and (src[i - 1].isalnum() or src[i - 1] == '_')


class Source:
    def __init__(self, path, text=None):
        self.path = path
        self.text = text if text is not None else open(path).read()
        self.mask = mask_source(self.text)

    # ---- primitive helpers -------------------------------------------------------------
    def match_close(self, open_idx):
        """Index of the bracket closing the one at open_idx (in mask)."""
        pairs = {'{': '}', '(': ')', '[': ']'}
        o = self.mask[open_idx]
        if o not in pairs:
            raise AnchorLost(f'{self.path}: not an opening bracket at {open_idx}')
        depth = 0
        stack = []
        for k in range(open_idx, len(self.mask)):
            ch = self.mask[k]
            if ch in '{([':
                stack.append(ch)
            elif ch in '})]':
                if not stack:
                    raise AnchorLost(f'{self.path}: unbalanced brackets')
                stack.pop()
                if not stack:
                    return k
        raise AnchorLost(f'{self.path}: unbalanced brackets from {open_idx}')

    def find_all(self, pattern, span=None, flags=0, on_text=False):
        a, b = span if span else (0, len(self.mask))
        rx = re.compile(pattern, flags)
        if on_text:
            # search the original text (so string literals can be part of an anchor) but only accept
            # matches that start in code, not inside a comment or literal
            return [m for m in rx.finditer(self.text, a, b)
                    if self.mask[m.start()] == self.text[m.start()] and not self.text[m.start()].isspace()]
        return [m for m in rx.finditer(self.mask, a, b)]

    def find_one(self, pattern, span=None, what=None, on_text=False):
        ms = self.find_all(pattern, span, on_text=on_text)
        if len(ms) != 1:
            raise AnchorLost(f'{self.path}: anchor {what or pattern!r} matched {len(ms)} times (need 1)')
        return ms[0]

    def find_literal_all(self, literal, span=None):
        """Find occurrences of literal in the ORIGINAL text whose first char is code (not masked)."""
        a, b = span if span else (0, len(self.text))
        res = []
        k = self.text.find(literal, a, b)
        while k >= 0:
            res.append(k)
            k = self.text.find(literal, k + 1, b)
        return res

    def line_of(self, idx):
        return self.text.count('\n', 0, idx) + 1

    # ---- items ----------------------------------------------------------------------------
    def item(self, kind, name, span=None):
        """Locate `kind name ... { ... }` (kind in fn/enum/struct/impl/mod/trait).
        Returns dict(start, sig_start, open, close, end) where start includes contiguous
        preceding attribute / doc-comment lines, sig_start is the start of the line holding
        the keyword, open/close the body braces, end = close+1."""
        if kind == 'impl':
            pat = r'\bimpl(?:\s*<[^{]*?>)?\s+' + name + r'(?:\s*<[^{]*?>)?\s*(?:where[^{]*)?\{'
        elif kind == 'fn':
            pat = r'\bfn\s+' + re.escape(name) + r'\s*[<(]'
        else:
            pat = r'\b' + kind + r'\s+' + re.escape(name) + r'\b'
        m = self.find_one(pat, span, what=f'{kind} {name}')
        # body open brace: first '{' at bracket depth 0 after the keyword
        k = m.start()
        depth = 0
        open_idx = None
        while k < len(self.mask):
            ch = self.mask[k]
            if ch in '([':
                depth += 1
            elif ch in ')]':
                depth -= 1
            elif ch == '{' and depth == 0:
                open_idx = k
                break
            elif ch == ';' and depth == 0:
                raise AnchorLost(f'{self.path}: {kind} {name} has no body')
            k += 1
        if open_idx is None:
            raise AnchorLost(f'{self.path}: {kind} {name}: no body found')
        close = self.match_close(open_idx)
        sig_start = self.text.rfind('\n', 0, m.start()) + 1
        # extend start upwards over attributes and doc comments
        start = sig_start
        while True:
            prev_end = start - 1
            if prev_end <= 0:
                break
            prev_start = self.text.rfind('\n', 0, prev_end) + 1
            line = self.text[prev_start:prev_end].strip()
            if line.startswith('#[') or line.startswith('///') or line.startswith('#!['):
                start = prev_start
            else:
                break
        return dict(start=start, sig_start=sig_start, kw=m.start(), open=open_idx, close=close, end=close + 1)

    def impl_spans(self, name):
        pat = r'\bimpl(?:\s*<[^{]*?>)?\s+' + name + r'(?:\s*<[^{]*?>)?\s*(?:where[^{]*)?\{'
        spans = []
        for m in self.find_all(pat):
            o = m.end() - 1
            spans.append((o, self.match_close(o)))
        return spans

    def fn(self, name, impl=None, span=None):
        if impl is not None:
            # a type may have several inherent impl blocks: the function must occur in exactly one of them
            found = []
            for sp in self.impl_spans(impl):
                if self.find_all(r'\bfn\s+' + re.escape(name) + r'\s*[<(]', sp):
                    found.append(sp)
            if len(found) != 1:
                raise AnchorLost(f'{self.path}: fn {name} found in {len(found)} `impl {impl}` blocks (need 1)')
            span = found[0]
        return self.item('fn', name, span)

    def text_of(self, it, with_attrs=False):
        return self.text[(it['start'] if with_attrs else it['sig_start']):it['end']]

    def body_span(self, it):
        return (it['open'] + 1, it['close'])

    # ---- match arms ---------------------------------------------------------------------------
    def arm(self, pattern_regex, span, what=None, on_text=False):
        """Locate a match arm `PATTERN =>` inside span. Returns (arm_start, body_start, body_end)
        where body is either the braced block (including braces) or the expression up to the
        top-level comma."""
        m = self.find_one(pattern_regex + r'\s*=>', span, what=what or pattern_regex, on_text=on_text)
        k = m.end()
        while self.mask[k].isspace():
            k += 1
        if self.mask[k] == '{':
            e = self.match_close(k) + 1
            return (m.start(), k, e)
        # expression arm: scan to comma at depth 0 or closing brace of the match
        depth = 0
        j = k
        while j < span[1]:
            ch = self.mask[j]
            if ch in '{([':
                depth += 1
            elif ch in '})]':
                if depth == 0:
                    break
                depth -= 1
                if ch == '}' and depth == 0:
                    # a block-like expression arm (`match x {..}`, `if c {..} else {..}`) may end without a comma
                    n = j + 1
                    while n < span[1] and self.mask[n].isspace():
                        n += 1
                    rest = self.mask[n:n + 6]
                    if not (rest.startswith('else') or rest[:1] in ',.?' or rest[:1] in '+-*/%&|^<>=!'):
                        j += 1
                        break
            elif ch == ',' and depth == 0:
                break
            j += 1
        return (m.start(), k, j)

    def block_after(self, pattern_regex, span=None, what=None):
        """Find the anchor and return (anchor_start, open_brace, close_brace) of the first `{`
        block following it at bracket depth 0."""
        m = self.find_one(pattern_regex, span, what=what)
        k = m.end() - 1 if self.mask[m.end() - 1] == '{' else m.end()
        depth = 0
        while k < len(self.mask):
            ch = self.mask[k]
            if ch in '([':
                depth += 1
            elif ch in ')]':
                depth -= 1
            elif ch == '{' and depth == 0:
                return (m.start(), k, self.match_close(k))
            k += 1
        raise AnchorLost(f'{self.path}: no block after {what or pattern_regex!r}')


def dedent(text):
    lines = text.split('\n')
    ind = None
    for ln in lines[1:]:
        if ln.strip():
            k = len(ln) - len(ln.lstrip())
            ind = k if ind is None else min(ind, k)
    if not ind:
        return text
    return '\n'.join([lines[0]] + [ln[ind:] if ln.strip() else ln for ln in lines[1:]])


def replace_exact(text, old, new, count=None, what=None):
    """Listed identifier->parameter renaming inside a fragment; the number of occurrences must
    match `count` when given (else >= 1)."""
    n = text.count(old)
    if (count is not None and n != count) or n == 0:
        raise AnchorLost(f'fragment rewrite {what or old!r}: found {n} occurrences, expected {count or ">=1"}')
    return text.replace(old, new)


if __name__ == '__main__':
    import sys
    s = Source(sys.argv[1])
    it = s.fn(sys.argv[2], impl=sys.argv[3] if len(sys.argv) > 3 else None)
    print(s.text_of(it))
