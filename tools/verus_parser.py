#!/usr/bin/env python3
"""Assemble parser_v.rs: real types + real Parser methods + spliced contracts (tables in PARSER_SPECS)."""
import os
import re
import sys
sys.path.insert(0, os.path.dirname(os.path.abspath(__file__)))
from extract import Source, AnchorLost, sha
from verus_engine import extract_type, filter_derives
from verus_engine import splice_fn_safe as splice_fn     # per-function isolation (anchor lost / unsupported construct)
from vlib import VERIF

PARSER_FNS = ['next_lexem', 'drop_lexem', 'there_are_remaining_lexems', 'parse_where', 'parse_expr', 'parse_and',
              'parse_cond', 'parse_add_sub', 'parse_mul_div', 'parse_paren', 'parse_func_scalar', 'parse_function',
              'parse_group_by', 'parse_order_by', 'parse_limit', 'parse_output_format', 'negate_expr_op',
              'parse_root_options', 'parse_fields', 'is_root_option_keyword', 'is_regexp_root_option']


NOT_EXTRACTED = ['new', 'parse', 'parse_roots']


def build(scratch, specs, extra_text=''):
    S = lambda rel: Source(os.path.join(scratch, rel))
    lexer, ops, field, func, expr, query, parser = (S('src/lexer.rs'), S('src/operators.rs'), S('src/field.rs'),
                                                    S('src/function.rs'), S('src/expr.rs'), S('src/query.rs'),
                                                    S('src/parser.rs'))
    out = [open(os.path.join(VERIF, 'harness', 'verus_prelude.rs')).read(), 'verus! {\n']
    shas = {}
    # ---- types (verbatim, derive list filtered) ----
    out.append(extract_type(lexer, 'enum', 'Lexem', keep=set()))
    out.append(extract_type(ops, 'enum', 'LogicalOp'))
    out.append(extract_type(ops, 'enum', 'Op'))
    out.append(extract_type(ops, 'enum', 'ArithmeticOp'))
    out.append(extract_type(field, 'enum', 'Field'))
    out.append(extract_type(func, 'enum', 'Function'))
    out.append(extract_type(query, 'enum', 'OutputFormat'))
    out.append(extract_type(expr, 'struct', 'Expr', keep={'PartialEq', 'Eq'}))
    out.append(extract_type(parser, 'struct', 'Parser'))
    out.append(extract_type(query, 'enum', 'TraversalMode'))
    out.append('use TraversalMode::{Bfs, Dfs};')
    out.append(extract_type(query, 'struct', 'RootOptions'))
    out.append('#[verifier::external_body]\nfn error_message(source: &str, description: &str) { }')
    # ---- Op / ArithmeticOp / OutputFormat / Field / Function helper impls ----
    out.append('impl Op {')
    for f in ['from', 'from_with_not', 'negate']:
        t, h = splice_fn(ops, f, 'Op', specs.get('Op::' + f))
        out.append(t); shas['Op::' + f] = h
    out.append('}')
    out.append('impl ArithmeticOp {')
    t, h = splice_fn(ops, 'from', 'ArithmeticOp', specs.get('ArithmeticOp::from'))
    out.append(t); shas['ArithmeticOp::from'] = h
    out.append('}')
    out.append('impl OutputFormat {')
    t, h = splice_fn(query, 'from', 'OutputFormat', specs.get('OutputFormat::from'))
    out.append(t); shas['OutputFormat::from'] = h
    out.append('}')
    out.append('impl Field {')
    for f in ['is_boolean_field', 'is_numeric_field', 'is_datetime_field']:
        t, h = splice_fn(field, f, 'Field', specs.get('Field::' + f))
        out.append(t); shas['Field::' + f] = h
    out.append(specs['__field_from_str'])
    out.append('}')
    out.append('impl Function {')
    for f in ['is_boolean_function', 'is_numeric_function', 'is_aggregate_function']:
        t, h = splice_fn(func, f, 'Function', specs.get('Function::' + f))
        out.append(t); shas['Function::' + f] = h
    out.append(specs['__function_from_str'])
    try:
        t, h = splice_fn(func, 'is_argumentless_function', 'Function', dict(external_body=True, ret='r', ensures=['r == spec_argless(*self)']))
        out.append(t); shas['Function::is_argumentless_function'] = h
    except AnchorLost:
        pass
    out.append('}')
    # ---- Expr constructors (verbatim) ----
    out.append('impl Expr {')
    for f in ['op', 'logical_op', 'arithmetic_op', 'field', 'function', 'function_left', 'value',
              'has_aggregate_function', 'contains_numeric', 'contains_numeric_field', 'contains_datetime', 'contains_datetime_field']:
        t, h = splice_fn(expr, f, 'Expr', specs.get('Expr::' + f))
        out.append(t); shas['Expr::' + f] = h
    out.append('}')
    out.append(specs.get('__expr_clone', ''))
    # ---- Parser methods (verbatim + splices) ----
    out.append('impl Parser {')
    for f in PARSER_FNS:
        t, h = splice_fn(parser, f, 'Parser', specs.get(f))
        out.append(t); shas['Parser::' + f] = h
    # helper functions of impl Parser that are not in the contract table (e.g. introduced by a refactoring):
    # extracted verbatim WITHOUT a contract, so that callers are checked against "no information"
    pit = parser.item('impl', 'Parser')
    helpers = []
    for m in parser.find_all(r'\bfn\s+(\w+)\s*[<(]', (pit['open'], pit['close'])):
        name = m.group(1)
        if name in PARSER_FNS or name in NOT_EXTRACTED or name in helpers:
            continue
        # only direct members of the impl block (brace depth 1)
        depth = parser.mask[pit['open']:m.start()].count('{') - parser.mask[pit['open']:m.start()].count('}')
        if depth != 1:
            continue
        helpers.append(name)
        t, h = splice_fn(parser, name, 'Parser', dict(attrs=['#[verifier::exec_allows_no_decreases_clause]']))
        out.append(t); shas['Parser::' + name + ' (uncontracted helper)'] = h
    out.append('}')
    # every lower-case word literal that occurs in the two option functions gets its characters revealed (so that a literal introduced by an
    # edit - e.g. a longer prefix - is as transparent to the solver as the ones the contract table already lists)
    lits = []
    for fname in ['parse_root_options', 'is_root_option_keyword']:
        try:
            fit = parser.fn(fname, impl='Parser')
        except AnchorLost:
            continue
        for mm in re.finditer(r'"([a-z]{1,24})"', parser.text[fit['open']:fit['end']]):
            if mm.group(1) not in lits:
                lits.append(mm.group(1))
    ens = ', '.join('"%s"@ == seq![%s]' % (w, ','.join("'%s'" % ch for ch in w)) for w in lits) or 'true'
    out.append('proof fn opt_reveal_literals_auto()\n    ensures ' + ens + ',\n{\n' + ''.join('    reveal_strlit("%s");\n' % w for w in lits) + '}\n')
    import verus_engine
    out.append('\n'.join(verus_engine.HOISTED))
    verus_engine.HOISTED.clear()
    out.append(extra_text)
    out.append('} // verus!\nfn main() {}\n')
    return '\n'.join(out), shas


LEXER_EXTERNAL = ['looks_like_expression', 'looks_like_date']   # regex / closures: bodies replaced by stubs, no contract (any bool)


def build_lexer(scratch, specs, extra_text=''):
    """lexer_v.rs: real Lexem / LexingMode / Lexer, real bodies of Lexer::new, next_lexem, is_arithmetic_op_char, is_op_char,
    is_paren_char; looks_like_expression / looks_like_date as external stubs (signature from the source)."""
    lexer = Source(os.path.join(scratch, 'src/lexer.rs'))
    out = [open(os.path.join(VERIF, 'harness', 'verus_lexer_prelude.rs')).read()]
    shas = {}
    out.append(extract_type(lexer, 'enum', 'Lexem', keep=set()))
    out.append(extract_type(lexer, 'enum', 'LexingMode', keep=set()))
    # derived PartialEq of LexingMode: structural equality (trusted impl replacing the derive)
    out.append('impl PartialEq for LexingMode {\n    #[verifier::external_body]\n'
               '    fn eq(&self, other: &LexingMode) -> (r: bool) ensures r == (*self == *other) { unimplemented!() }\n'
               '    #[verifier::external_body]\n'
               '    fn ne(&self, other: &LexingMode) -> (r: bool) ensures r == (*self != *other) { unimplemented!() }\n}\n')
    out.append(extract_type(lexer, 'struct', 'Lexer'))
    out.append('impl Lexer {')
    pit = lexer.item('impl', 'Lexer')
    for m in lexer.find_all(r'\bfn\s+(\w+)\s*[<(]', (pit['open'], pit['close'])):
        name = m.group(1)
        depth = lexer.mask[pit['open']:m.start()].count('{') - lexer.mask[pit['open']:m.start()].count('}')
        if depth != 1:
            continue
        sp = specs.get('Lexer::' + name)
        if sp is None:
            sp = dict(attrs=['#[verifier::exec_allows_no_decreases_clause]'])      # helper introduced by a refactoring: no information
        t, h = splice_fn(lexer, name, 'Lexer', sp)
        out.append(t); shas['Lexer::' + name + ('' if ('Lexer::' + name) in specs else ' (uncontracted helper)')] = h
    out.append('}')
    t, h = splice_fn(lexer, 'is_paren_char', None, specs.get('is_paren_char'))
    out.append(t); shas['lexer::is_paren_char'] = h
    for f in LEXER_EXTERNAL:
        it = lexer.fn(f)
        sig = lexer.text[it['sig_start']:it['open']].rstrip()
        out.append('#[verifier::external_body]\n' + sig + ' { unimplemented!() }')
        shas['lexer::' + f + ' (external stub: any bool)'] = sha(lexer.text_of(it))
    out.append(extra_text)
    out.append('} // verus!\nfn main() {}\n')
    return '\n'.join(out), shas
