#!/usr/bin/env python3
"""Units: pieces of injected verification text. Each unit's build(inj, repo) adds appended harness
modules / contract attributes / generated fragment functions to the Injector and returns a dict
describing what is under contract and what the extraction dropped. A unit raises AnchorLost when the
real code no longer has the shape its anchors expect (-> exit 2 for the obligations that need it)."""
import os
import re
from extract import Source, AnchorLost, sha, dedent, replace_exact
from vlib import VERIF, REPO


def H(name):
    return open(os.path.join(VERIF, 'harness', name)).read()


def src(rel, scratch):
    return Source(os.path.join(scratch, rel))


def fn_record(s, name, engine, impl=None, how='whole function, annotated in place on the scratch copy'):
    it = s.fn(name, impl=impl)
    return {'fn': (impl + '::' if impl else '') + name, 'file': os.path.relpath(s.path).split('crate/')[-1],
            'engine': engine, 'how': how, 'sha256_16': sha(s.text_of(it))}


# --------------------------------------------------------------------------------------------------
# mode.rs : contracts in place (Engine K)
# --------------------------------------------------------------------------------------------------
MODE_BITS = [('mode_user_read', '0o400'), ('mode_user_write', '0o200'), ('mode_user_exec', '0o100'),
             ('mode_group_read', '0o040'), ('mode_group_write', '0o020'), ('mode_group_exec', '0o010'),
             ('mode_other_read', '0o004'), ('mode_other_write', '0o002'), ('mode_other_exec', '0o001'),
             ('mode_suid', '0o4000'), ('mode_sgid', '0o2000'), ('mode_sticky', '0o1000')]
MODE_ALL = [('mode_user_all', '0o700'), ('mode_group_all', '0o070'), ('mode_other_all', '0o007')]
MODE_TYPES = [('mode_is_pipe', 'T_FIFO'), ('mode_is_char_device', 'T_CHR'), ('mode_is_block_device', 'T_BLK'),
              ('mode_is_socket', 'T_SOCK'), ('mode_is_directory', 'T_DIR'), ('mode_is_link', 'T_LNK')]


def unit_mode(inj, scratch):
    rel = 'src/mode.rs'
    s = src(rel, scratch)
    fns = []
    for f, b in MODE_BITS:
        inj.contract(rel, f, [f'kani::ensures(|r: &bool| *r == verif_kani::bit(mode, {b}))'])
        fns.append(fn_record(s, f, 'K'))
    for f, b in MODE_ALL:
        inj.contract(rel, f, [f'kani::ensures(|r: &bool| *r == ((mode & {b}) == {b}))'])
        fns.append(fn_record(s, f, 'K'))
    for f, t in MODE_TYPES:
        inj.contract(rel, f, ['kani::requires(verif_kani::valid_type(mode))',
                              f'kani::ensures(|r: &bool| *r == verif_kani::is_type(mode, verif_kani::{t}))'])
        fns.append(fn_record(s, f, 'K'))
    for w in ['get_mode_unix', 'format_mode', 'user_read', 'user_write', 'user_exec', 'user_all', 'group_read', 'group_write',
              'group_exec', 'group_all', 'other_read', 'other_write', 'other_exec', 'other_all', 'suid_bit_set',
              'sgid_bit_set', 'is_pipe', 'is_char_device', 'is_block_device', 'is_socket']:
        fns.append(fn_record(s, w, 'K', how='whole function; postcondition asserted in an appended harness'))
    inj.append(rel, H('mode.kani.rs'))
    inj.prepend('src/main.rs', '#![cfg_attr(kani, recursion_limit = "512")]')
    return dict(functions=fns, dropped=[])


# --------------------------------------------------------------------------------------------------
# Engine F helpers
# --------------------------------------------------------------------------------------------------
FRAG_FILE = 'src/verif_frag.rs'
FRAG_PRELUDE = '''// GENERATED on every run by /verif/tools/units.py from /repo's working tree. Engine F (DESIGN.md 3.2).
// Every `frag_*` function body below is text copied verbatim from the anchored location, apart from the
// identifier->parameter renamings listed in the evidence file.
#![allow(unused, unused_mut, unused_variables, unused_assignments, dead_code, unreachable_patterns, unused_parens)]
use crate::operators::{Op, LogicalOp, ArithmeticOp};

pub fn any_op() -> Op {
    let k: u8 = kani::any();
    kani::assume(k < 14);
    match k { 0 => Op::Eq, 1 => Op::Ne, 2 => Op::Eeq, 3 => Op::Ene, 4 => Op::Gt, 5 => Op::Gte, 6 => Op::Lt,
              7 => Op::Lte, 8 => Op::Rx, 9 => Op::NotRx, 10 => Op::Like, 11 => Op::NotLike, 12 => Op::Between,
              _ => Op::NotBetween }
}
pub fn any_cmp_op() -> Op {
    let k: u8 = kani::any();
    kani::assume(k < 8);
    match k { 0 => Op::Eq, 1 => Op::Ne, 2 => Op::Eeq, 3 => Op::Ene, 4 => Op::Gt, 5 => Op::Gte, 6 => Op::Lt, _ => Op::Lte }
}
pub fn any_eq_op() -> Op {
    let k: u8 = kani::any();
    kani::assume(k < 4);
    match k { 0 => Op::Eq, 1 => Op::Ne, 2 => Op::Eeq, _ => Op::Ene }
}
pub fn is_cmp_op(op: &Op) -> bool {
    matches!(op, Op::Eq | Op::Ne | Op::Eeq | Op::Ene | Op::Gt | Op::Gte | Op::Lt | Op::Lte)
}
pub fn any_logical() -> LogicalOp { if kani::any() { LogicalOp::And } else { LogicalOp::Or } }
'''


def frag_begin(inj):
    if FRAG_FILE not in inj.new_files:
        inj.new_file(FRAG_FILE, FRAG_PRELUDE)
        inj.append('src/main.rs', '#[cfg(kani)]\nmod verif_frag;')
        inj.prepend('src/main.rs', '#![cfg_attr(kani, recursion_limit = "512")]')


def frag_record(name, file, anchor, original, generated, renamings, dropped):
    return {'fn': name, 'file': file, 'engine': 'F', 'how': 'fragment extracted by structural anchor: ' + anchor,
            'original_sha256_16': sha(original), 'generated_sha256_16': sha(generated), 'renamings': renamings,
            'original_text': original if len(original) < 1500 else original[:1500] + ' ...'}, \
           f'{name}: dropped {dropped}'


def enclosing_if_condition(s, stmt_idx, what):
    """stmt_idx is the offset of the first statement of an `if COND {` block. Returns COND text."""
    k = stmt_idx - 1
    while k >= 0 and s.mask[k].isspace():
        k -= 1
    if s.mask[k] != '{':
        raise AnchorLost(f'{what}: anchored statement is not the first statement of a block')
    brace = k
    j = brace - 1
    depth = 0
    while j >= 0:
        ch = s.mask[j]
        if ch in ')]':
            depth += 1
        elif ch in '([':
            depth -= 1
        elif ch in '{};' and depth == 0:
            break
        j -= 1
    head = s.mask[j + 1:brace]
    m = re.match(r'\s*if\s+(.*\S)\s*$', head, flags=re.S)
    if not m or re.match(r'\s*if\s+let\b', head):
        raise AnchorLost(f'{what}: enclosing block is not a plain `if COND {{` ({head.strip()[:60]!r})')
    return s.text[j + 1 + m.start(1):j + 1 + m.end(1)]


# --------------------------------------------------------------------------------------------------
# conforms(): typed comparison arms and the logical block
# --------------------------------------------------------------------------------------------------
def _conforms_arm(s, variant):
    it = s.fn('conforms', impl='Searcher')
    pat = r'(?:VariantType::\w+\s*\|\s*)*VariantType::' + variant + r'(?:\s*\|\s*VariantType::\w+)*'
    a, b0, b1 = s.arm(pat, s.body_span(it), what=f'conforms arm VariantType::{variant}')
    if s.mask[b0] != '{':
        raise AnchorLost(f'conforms arm {variant} is not a block')
    return s.text[b0:b1]


def unit_cmp(inj, scratch):
    """The typed comparison arms of conforms, copied VERBATIM (whole arm block). Their free variables `op`,
    `field_value`, `value` become parameters; the two Variant operands are shim values (FV) whose to_int /
    to_float / to_bool / to_datetime mirror the coercions of the real Variant for a value of that type."""
    frag_begin(inj)
    s = src('src/searcher.rs', scratch)
    recs, dropped = [], []
    out = ['pub mod cmp {', 'use super::*;', H('frag_cmp_prelude.rs')]
    for variant, fn in [('Int', 'frag_cmp_int'), ('Float', 'frag_cmp_float'), ('Bool', 'frag_cmp_bool'), ('DateTime', 'frag_cmp_datetime')]:
        t = dedent(_conforms_arm(s, variant))
        for w in re.findall(r'\bself\b', s.mask[0:0]):
            pass
        if re.search(r'\bself\b|\bentry\b|\bfile_info\b', t):
            raise AnchorLost(f'conforms arm {variant} uses state outside (op, field_value, value)')
        out.append(f'pub fn {fn}(op: &Op, field_value: &FV, value: &FV) -> bool {t}')
        r, d = frag_record(fn, 'src/searcher.rs', f'fn conforms / arm `VariantType::{variant} => {{..}}` (whole arm block, verbatim)', t, t,
                           ['field_value, value: Variant -> shim FV (to_int / to_float / to_bool / to_datetime of a value of that type); '
                            'NaiveDateTime -> TS whose and_utc().timestamp() is the wrapped i64'],
                           'Variant coercions of string literals (parse, parse_filesize, parse_datetime)')
        recs.append(r); dropped.append(d)
    # module-level helper functions of searcher.rs that the arms call (e.g. compare_floats) are copied verbatim too
    for helper in ['compare_floats']:
        try:
            hit = s.item('fn', helper)
        except AnchorLost:
            continue
        ht = dedent(s.text[hit['sig_start']:hit['end']])
        out.append(ht)
        r, d = frag_record(helper, 'src/searcher.rs', f'fn {helper} (whole function, verbatim)', ht, ht, [], 'nothing')
        recs.append(r)
    out.append(H('frag_cmp.kani.rs'))
    out.append('}')
    inj.new_file(FRAG_FILE, '\n'.join(out) + '\n')
    return dict(functions=recs, dropped=dropped)


def unit_logic(inj, scratch):
    frag_begin(inj)
    s = src('src/searcher.rs', scratch)
    it = s.fn('conforms', impl='Searcher')
    a, o, c = s.block_after(r'if\s+let\s+Some\(ref\s+logical_op\)\s*=\s*expr\.logical_op\s*\{', s.body_span(it),
                            what='conforms: `if let Some(ref logical_op) = expr.logical_op {`')
    t = dedent(s.text[o:c + 1])
    g = replace_exact(t, 'self.conforms(entry, file_info, ', 'frag_eval(', 3)
    text = f'''pub mod logic {{
use super::*;
pub struct FragExpr {{ pub left: Option<bool>, pub right: Option<bool> }}
pub fn frag_eval(sub: &bool) -> bool {{ *sub }}
pub fn frag_logic(logical_op: &LogicalOp, expr: &FragExpr) -> bool {{
    let mut result = false;
    {g}
    result
}}
{H('frag_logic.kani.rs')}
}}
'''
    inj.new_file(FRAG_FILE, text)
    r, d = frag_record('frag_logic', 'src/searcher.rs', 'fn conforms / block of `if let Some(ref logical_op) = expr.logical_op`',
                       t, g, ['self.conforms(entry, file_info, X) -> frag_eval(X) (the truth value of the sub-expression)',
                              'expr.left / expr.right: Option<Box<Expr>> -> Option<bool>'],
                       'the recursive evaluation of the children, entry, file_info')
    return dict(functions=[r], dropped=[d])


# --------------------------------------------------------------------------------------------------
# visit_dir(): depth formula, report gate, descend gate, early-exit gates
# --------------------------------------------------------------------------------------------------
def _first_stmt_if_break(s, loop_pat, span, what):
    a, o, c = s.block_after(loop_pat, span, what=what)
    body = s.text[o + 1:c]
    m = re.match(r'\s*if\s+(.*?)\s*\{\s*break;\s*\}', body, flags=re.S)
    if not m or '{' in m.group(1):
        raise AnchorLost(f'{what}: first statement of the loop is not `if COND {{ break; }}`')
    return m.group(1)


def _gate_rename(cond):
    g = cond
    ren = []
    for old, new in [('self.is_buffered()', 'p_buffered'), ('self.query.limit', 'p_limit'), ('self.found', 'p_found')]:
        if old in g:
            g = g.replace(old, new)
            ren.append(f'{old} -> {new}')
    if 'self.' in g:
        raise AnchorLost(f'early-exit gate mentions state outside (is_buffered, limit, found): {cond!r}')
    return g, ren


def _gates_begin(inj):
    frag_begin(inj)


def _visit_dir(scratch):
    s = src('src/searcher.rs', scratch)
    it = s.fn('visit_dir', impl='Searcher')
    return s, it, s.body_span(it)


def unit_gate_depth(inj, scratch):
    _gates_begin(inj)
    s, it, span = _visit_dir(scratch)
    m1 = s.find_one(r'let\s+base_depth\s*=\s*match\s+root_depth', span, what='visit_dir: let base_depth = match root_depth')
    m2 = s.find_one(r'let\s+depth\s*=[^;]*;', span, what='visit_dir: let depth = ...;')
    if not (m1.start() < m2.start()):
        raise AnchorLost('visit_dir: depth statement precedes base_depth')
    t = dedent(s.text[m1.start():m2.end()])
    if s.mask[m1.start():m2.end()].count(';') != 2:
        raise AnchorLost('visit_dir: statements between base_depth and depth changed shape')
    # arguments of every recursive call: self.visit_dir(&path, min_depth, max_depth, base_depth, ...)
    calls = s.find_all(r'self\.visit_dir\(', span)
    if not calls:
        raise AnchorLost('visit_dir: no recursive call found')
    arg_fns = []
    for k, cm in enumerate(calls):
        o = cm.end() - 1
        c = s.match_close(o)
        args, depth, cur = [], 0, ''
        for ch_m, ch_t in zip(s.mask[o + 1:c], s.text[o + 1:c]):
            if ch_m in '([{':
                depth += 1
            elif ch_m in ')]}':
                depth -= 1
            if ch_m == ',' and depth == 0:
                args.append(cur.strip()); cur = ''
            else:
                cur += ch_t
        if cur.strip():
            args.append(cur.strip())
        args = [a for a in args if not a.startswith('#[cfg')]
        if len(args) < 4:
            raise AnchorLost('visit_dir: recursive call has fewer than 4 arguments')
        arg_fns.append(f'pub fn frag_rec_args_{k}(min_depth: u32, max_depth: u32, root_depth: u32, base_depth: u32, depth: u32, canonical_depth: u32) -> (u32, u32, u32) {{ ({args[1]}, {args[2]}, {args[3]}) }}')
    n = len(calls)
    rec_asserts = '\n'.join(f'    assert!(frag_rec_args_{k}(min, max, root, base, depth, canon) == (min, max, base), "OBL C01.recursion.args: recursive call #{k} passes min_depth, max_depth and base_depth on unchanged");' for k in range(n))
    out = ['pub mod gate_depth {', 'use super::*;',
           f'pub fn frag_depth(canonical_depth: u32, root_depth: u32) -> (u32, u32) {{\n    {t}\n    (base_depth, depth)\n}}'] + arg_fns
    out.append(H('frag_gate_depth.kani.rs').replace('/*REC_ASSERTS*/', rec_asserts))
    out.append('}')
    inj.new_file(FRAG_FILE, '\n'.join(out) + '\n')
    r, d = frag_record('frag_depth', 'src/searcher.rs', 'fn visit_dir / statements `let base_depth = match root_depth {..};` to `let depth = ..;`',
                       t, t, [], 'canonicalisation of the path (canonical_path, calc_depth are inputs)')
    r2, d2 = frag_record(f'frag_rec_args_0..{n - 1}', 'src/searcher.rs', 'fn visit_dir / argument expressions 2-4 (min_depth, max_depth, root_depth position) of every `self.visit_dir(..)` call',
                         '\n'.join(arg_fns), '\n'.join(arg_fns), [], 'the other arguments and the call itself')
    return dict(functions=[r, r2], dropped=[d, d2])


def unit_gate_report(inj, scratch):
    _gates_begin(inj)
    s, it, span = _visit_dir(scratch)
    k = s.find_one(r'let\s+checked\s*=\s*self\.check_file\(&entry,\s*&None\)\?;', span, what='visit_dir: let checked = self.check_file(&entry, &None)?;')
    cond = enclosing_if_condition(s, k.start(), 'visit_dir report gate')
    k2 = s.find_one(r'let\s+result\s*=\s*entry\.file_type\(\);', span, what='visit_dir: let result = entry.file_type();')
    cond2 = enclosing_if_condition(s, k2.start(), 'visit_dir descend gate')
    out = ['pub mod gate_window {', 'use super::*;',
           f'pub fn frag_report_gate(min_depth: u32, depth: u32) -> bool {{ {cond} }}',
           f'pub fn frag_descend_gate(max_depth: u32, depth: u32) -> bool {{ {cond2} }}',
           H('frag_gate_window.kani.rs'), '}']
    inj.new_file(FRAG_FILE, '\n'.join(out) + '\n')
    r, d = frag_record('frag_report_gate', 'src/searcher.rs', 'fn visit_dir / condition of the `if` whose block starts with `let checked = self.check_file(&entry, &None)?;`',
                       cond, cond, [], 'the body of the gate (check_file, archives)')
    r2, d2 = frag_record('frag_descend_gate', 'src/searcher.rs', 'fn visit_dir / condition of the `if` whose block starts with `let result = entry.file_type();`',
                         cond2, cond2, [], 'the body of the gate (recursion / queueing)')
    return dict(functions=[r, r2], dropped=[d, d2])


def _unit_gate_exit(inj, scratch, which):
    _gates_begin(inj)
    s, it, span = _visit_dir(scratch)
    if which == 'dir':
        cond = _first_stmt_if_break(s, r'for\s+entry\s+in\s+entry_list\s*\{', span, 'visit_dir: for entry in entry_list')
        anchor = 'first statement `if .. { break; }` of `for entry in entry_list`'
    else:
        cond = _first_stmt_if_break(s, r'for\s+i\s+in\s+0\.\.archive\.len\(\)\s*\{', span, 'visit_dir: for i in 0..archive.len()')
        anchor = 'first statement `if .. { break; }` of `for i in 0..archive.len()`'
    g, ren = _gate_rename(cond)
    text = f'''pub mod gate_exit_{which} {{
use super::*;
pub fn frag_exit(p_buffered: bool, p_limit: u32, p_found: u32) -> bool {{ {g} }}
#[kani::proof]
fn c06_gate() {{
    let b: bool = kani::any(); let limit: u32 = kani::any(); let found: u32 = kani::any();
    kani::cover!(true);
    assert!(frag_exit(b, limit, found) == (!b && limit > 0 && found >= limit), "OBL C06.gate.{which}");
}}
#[kani::proof]
fn canary_must_fail() {{
    let f: u32 = kani::any();
    assert!(frag_exit(false, 5, f), "CANARY must fail");
}}
}}
'''
    inj.new_file(FRAG_FILE, text)
    r, d = frag_record(f'gate_exit_{which}::frag_exit', 'src/searcher.rs', 'fn visit_dir / condition of the ' + anchor, cond, g, ren, 'the loop')
    return dict(functions=[r], dropped=[d])


def unit_gate_exit_dir(inj, scratch):
    return _unit_gate_exit(inj, scratch, 'dir')


def unit_gate_exit_archive(inj, scratch):
    return _unit_gate_exit(inj, scratch, 'archive')


# --------------------------------------------------------------------------------------------------
# parse_cond(): BETWEEN desugaring
# --------------------------------------------------------------------------------------------------
def unit_between(inj, scratch):
    frag_begin(inj)
    s = src('src/parser.rs', scratch)
    it = s.fn('parse_cond', impl='Parser')
    gm = s.find_one(r'Some\(Lexem::Operator\(s\)\)\s+if\s+([^=>{]*?==\s*"between")\s*=>', s.body_span(it),
                    what='parse_cond: arm `Some(Lexem::Operator(s)) if <guard on s> == "between"`', on_text=True)
    guard = gm.group(1)
    a, b0, b1 = s.arm(r'Some\(Lexem::Operator\(s\)\)\s+if\s+[^=>{]*?==\s*"between"', s.body_span(it),
                      what='parse_cond: between arm', on_text=True)
    ms = s.find_all(r'match\s+not\s*\{', (b0, b1))
    if len(ms) != 3:
        raise AnchorLost(f'parse_cond between arm: expected 3 `match not {{..}}` expressions, found {len(ms)}')
    exprs = []
    for m in ms:
        o = m.end() - 1
        c = s.match_close(o)
        exprs.append(dedent(s.text[m.start():c + 1]))
    # which constructor receives which: Expr::op(left.clone().unwrap(), <0>, left_between..), Expr::op(left.unwrap(), <1>, right_between..), logical_op(.., <2>, ..)
    arm = s.text[b0:b1]
    shape = re.sub(r'\s+', '', s.mask[b0:b1]).replace(',)', ')')
    order_ok = re.search(r'letleft_expr=Expr::op\(left\.clone\(\)\.unwrap\(\),matchnot\{.*?\},left_between\.unwrap\(\)\);'
                         r'letright_expr=Expr::op\(left\.unwrap\(\),matchnot\{.*?\},right_between\.unwrap\(\)\);'
                         r'Ok\(Some\(Expr::logical_op\(left_expr,matchnot\{.*?\},right_expr\)\)\)', shape)
    if not order_ok:
        raise AnchorLost('parse_cond between arm: operand wiring (left >= low, left <= high) changed shape')
    text = f'''pub mod between {{
use super::*;
use super::cmp::*;
pub fn frag_is_between(s: String) -> bool {{ {guard} }}
pub fn frag_between(not: bool) -> (Op, LogicalOp, Op) {{
    let low_op = {exprs[0]};
    let high_op = {exprs[1]};
    let lop = {exprs[2]};
    (low_op, lop, high_op)
}}
{H('frag_between.kani.rs')}
}}
'''
    inj.new_file(FRAG_FILE, text)
    r, d = frag_record('frag_between', 'src/parser.rs', 'fn parse_cond / the three `match not {..}` expressions of the "between" arm (operand wiring checked by shape)',
                       '\n'.join(exprs), '\n'.join(exprs), [], 'operand parsing (parse_add_sub), Expr construction')
    return dict(functions=[r], dropped=[d])


def unit_operators(inj, scratch):
    rel = 'src/operators.rs'
    s = src(rel, scratch)
    inj.contract(rel, 'negate', ['kani::ensures(|r: &Op| verif_kani::spec_negation_pair(op, *r))'], impl='Op')
    inj.append(rel, H('operators.kani.rs'))
    inj.prepend('src/main.rs', '#![cfg_attr(kani, recursion_limit = "512")]')
    return dict(functions=[fn_record(s, 'negate', 'K', impl='Op'),
                           fn_record(s, 'from_with_not', 'K', impl='Op', how='whole function; postcondition asserted in an appended harness on concrete spellings')],
                dropped=[])


# --------------------------------------------------------------------------------------------------
# exec_search(): exit status mapping; get_mean(): the division; ArithmeticOp::calc(): the operator table
# --------------------------------------------------------------------------------------------------
def unit_status(inj, scratch):
    frag_begin(inj)
    s = src('src/main.rs', scratch)
    it = s.fn('exec_search')
    m = s.find_one(r'match\s+error_count\s*\{', s.body_span(it), what='exec_search: match error_count {')
    c = s.match_close(m.end() - 1)
    t = dedent(s.text[m.start():c + 1])
    # the Err arm: `Err(err) => { error_message(..); 2 }`
    a, b0, b1 = s.arm(r'Err\(err\)', s.body_span(it), what='exec_search: Err(err) arm')
    tail = re.sub(r'\s+', ' ', s.mask[b0:b1])
    mm = re.search(r';\s*(\d+)\s*\}$', tail)
    if not mm:
        raise AnchorLost('exec_search: Err arm does not end in a literal status')
    err_status = mm.group(1)
    text = f'''pub mod status {{
use super::*;
pub fn frag_status(error_count: i32) -> u8 {{ {t} }}
pub const FRAG_PARSE_ERROR_STATUS: u8 = {err_status};
#[kani::proof]
fn c10_status() {{
    let n: i32 = kani::any();
    let st = frag_status(n);
    kani::cover!(true);
    assert!(st == if n == 0 {{ 0 }} else {{ 1 }}, "OBL C10.status: 0 iff no error, else 1");
    assert!(FRAG_PARSE_ERROR_STATUS == 2, "OBL C10.status: a query rejected by the parser exits with status 2");
}}
}}
'''
    inj.new_file(FRAG_FILE, text)
    r, d = frag_record('frag_status', 'src/main.rs', 'fn exec_search / `match error_count {..}` and the literal closing the `Err(err)` arm',
                       t, t, [], 'Searcher construction, list_search_results().unwrap(), error_message')
    return dict(functions=[r], dropped=[d])


def unit_mean(inj, scratch):
    frag_begin(inj)
    s = src('src/function.rs', scratch)
    it = s.fn('get_mean')
    body = s.text[it['open'] + 1:it['close']]
    mbody = s.mask[it['open'] + 1:it['close']]
    # tail expression = text after the last ';'
    k = mbody.rfind(';')
    tail = body[k + 1:].strip()
    lets = re.sub(r'\s+', ' ', mbody[:k + 1]).strip()
    if lets != 'let sum = get_buffer_sum(raw_output_buffer, buffer_key); let size = raw_output_buffer.len();':
        raise AnchorLost(f'get_mean: leading statements changed shape: {lets!r}')
    if not tail:
        raise AnchorLost('get_mean: no tail expression')
    text = f'''pub mod mean {{
use super::*;
pub fn frag_mean(sum: usize, size: usize) -> f64 {{ {tail} }}
#[kani::proof]
fn c07_mean_real() {{
    let sum: usize = kani::any(); let size: usize = kani::any();
    // BOUNDED: the symbolic f64 divider makes CBMC time out beyond this domain (measured: sum < 2^16,
    // size < 2^8 does not finish in 400 s; this domain takes ~3 s)
    kani::assume(size > 0 && size <= 16 && sum < 256);
    let got = frag_mean(sum, size);
    kani::cover!(sum % size != 0);
    // AVG = SUM / COUNT as a real number: both operands are exactly representable, so the correctly rounded
    // quotient is `sum as f64 / size as f64`
    assert!(got == (sum as f64) / (size as f64), "OBL C07.mean.real: AVG is SUM/COUNT as a real number (not truncated)");
}}
}}
'''
    inj.new_file(FRAG_FILE, text)
    r, d = frag_record('frag_mean', 'src/function.rs', 'fn get_mean / tail expression (leading two `let`s checked by shape)',
                       tail, tail, [], 'get_buffer_sum (proved separately under C07.sum), raw_output_buffer.len()')
    return dict(functions=[r], dropped=[d])


def unit_calc(inj, scratch):
    """ArithmeticOp::calc: the `match &self {..}` block copied verbatim; `left` / `right` are shim Variants (FV)."""
    frag_begin(inj)
    s = src('src/operators.rs', scratch)
    it = s.fn('calc', impl='ArithmeticOp')
    m = s.find_one(r'match\s+&self\s*\{', s.body_span(it), what='ArithmeticOp::calc: match &self {')
    c = s.match_close(m.end() - 1)
    t = dedent(s.text[m.start():c + 1])
    g = replace_exact(t, 'match &self', 'match &op', 1)
    if re.search(r'\bself\b', g):
        raise AnchorLost('ArithmeticOp::calc: the operator table uses self beyond the match scrutinee')
    text = f'''pub mod calc {{
use super::*;
use super::cmp::FV;
pub fn frag_calc(op: &ArithmeticOp, left: &FV, right: &FV) -> f64 {{ {g} }}
fn num(x: f64) -> FV {{ FV::float(x) }}
// Symbolic f64 operands are out of reach: CBMC did not finish `same(l + r, l + r)` for two symbolic f64 in 120 s
// (measured), and `%` (fmod) is not modelled at all. The operator dispatch is therefore checked on concrete
// witness pairs whose results are pairwise distinct - a BOUNDED stand-in, labelled as such.
#[kani::proof]
fn c15_calc_witnesses() {{
    kani::cover!(true);
    assert!(frag_calc(&ArithmeticOp::Add, &num(7.0), &num(2.0)) == 9.0, "OBL C15.calc.table: left + right");
    assert!(frag_calc(&ArithmeticOp::Subtract, &num(7.0), &num(2.0)) == 5.0, "OBL C15.calc.table: left - right");
    assert!(frag_calc(&ArithmeticOp::Multiply, &num(7.0), &num(2.0)) == 14.0, "OBL C15.calc.table: left * right");
    assert!(frag_calc(&ArithmeticOp::Divide, &num(7.0), &num(2.0)) == 3.5, "OBL C15.calc.table: left / right");
    assert!(frag_calc(&ArithmeticOp::Subtract, &num(-1.5), &num(0.25)) == -1.75, "OBL C15.calc.table: left - right (2)");
    assert!(frag_calc(&ArithmeticOp::Divide, &num(1.0), &num(8.0)) == 0.125, "OBL C15.calc.table: left / right (2)");
    assert!(frag_calc(&ArithmeticOp::Multiply, &num(-3.0), &num(0.5)) == -1.5, "OBL C15.calc.table: left * right (2)");
    assert!(frag_calc(&ArithmeticOp::Add, &num(-3.0), &num(0.5)) == -2.5, "OBL C15.calc.table: left + right (2)");
}}
// every operator is total on fractional and zero operands (no panic); the VALUE of % is not checked (fmod unmodelled)
#[kani::proof]
fn c15_calc_total() {{
    kani::cover!(true);
    let _ = frag_calc(&ArithmeticOp::Modulo, &num(7.0), &num(0.5));
    let _ = frag_calc(&ArithmeticOp::Modulo, &num(7.0), &num(0.0));
    let _ = frag_calc(&ArithmeticOp::Modulo, &num(7.0), &num(2.5));
    let _ = frag_calc(&ArithmeticOp::Divide, &num(7.0), &num(0.0));
    let _ = frag_calc(&ArithmeticOp::Divide, &num(7.0), &num(0.5));
}}
}}
'''
    inj.new_file(FRAG_FILE, text)
    r, d = frag_record('frag_calc', 'src/operators.rs', 'fn ArithmeticOp::calc / `match &self {..}` (verbatim)',
                       t, g, ['&self -> &op', 'left, right: &Variant -> shim FV (to_float exact, to_int truncating)'], 'Variant boxing (from_float)')
    return dict(functions=[r], dropped=[d])


# --------------------------------------------------------------------------------------------------
# parse_filesize(): the unit ladder (C14)
# --------------------------------------------------------------------------------------------------
DOC_UNITS = [('k', '1024'), ('kib', '1024'), ('kb', '1000'),
             ('m', '1024 * 1024'), ('mib', '1024 * 1024'), ('mb', '1000 * 1000'),
             ('g', '1024 * 1024 * 1024'), ('gib', '1024 * 1024 * 1024'), ('gb', '1000 * 1000 * 1000'),
             ('t', '1024 * 1024 * 1024 * 1024'), ('tib', '1024 * 1024 * 1024 * 1024'), ('tb', '1000 * 1000 * 1000 * 1000'),
             ('b', '1')]


def unit_filesize(inj, scratch):
    frag_begin(inj)
    s = src('src/util/mod.rs', scratch)
    it = s.fn('parse_filesize')
    body = s.text[it['open'] + 1:it['close']]
    rung_rx = re.compile(
        r'if\s+length\s*>\s*(\d+)\s*&&\s*string\.ends_with\("([^"]*)"\)\s*\{\s*'
        r'return\s+match\s+&string\[\.\.\(length\s*-\s*(\d+)\)\]\.parse::<(\w+)>\(\)\s*\{\s*'
        r'Ok\(size\)\s*=>\s*Some\((.*?)\),\s*_\s*=>\s*None,?\s*\};\s*\}', re.S)
    rungs = [(m.start(), m.end(), int(m.group(1)), m.group(2), int(m.group(3)), m.group(4), m.group(5).strip())
             for m in rung_rx.finditer(body)]
    if not rungs:
        raise AnchorLost('parse_filesize: no ladder rung of the expected shape found')
    # everything between the prologue and the fall-through must be rungs (no unrecognised statement)
    pro = re.match(r'\s*let\s+string\s*=\s*s\.to_string\(\)\.to_ascii_lowercase\(\)\.replace\(" ",\s*""\);\s*let\s+length\s*=\s*string\.len\(\);', body)
    if not pro:
        raise AnchorLost('parse_filesize: prologue (lower-casing, space removal, length) changed shape')
    pos = pro.end()
    for (a, b, *_rest) in rungs:
        if body[pos:a].strip():
            raise AnchorLost(f'parse_filesize: unrecognised statement between rungs: {body[pos:a].strip()[:80]!r}')
        pos = b
    tail = body[pos:].strip()
    if re.sub(r'\s+', '', tail) != 'string.parse::<u64>().ok()':
        raise AnchorLost(f'parse_filesize: fall-through changed shape: {tail[:80]!r}')
    n = len(rungs)
    out = ['pub mod filesize {', 'use super::*;',
           f'pub const N_RUNGS: usize = {n};',
           'pub const SUFFIX: [&str; N_RUNGS] = [' + ', '.join(f'"{r[3]}"' for r in rungs) + '];',
           'pub const GUARD: [usize; N_RUNGS] = [' + ', '.join(str(r[2]) for r in rungs) + '];',
           'pub const STRIP: [usize; N_RUNGS] = [' + ', '.join(str(r[4]) for r in rungs) + '];']
    disp_f, disp_u = [], []
    for i, r in enumerate(rungs):
        ty, expr = r[5], r[6]
        if ty == 'f64':
            g = replace_exact(expr, '*size', 'size')
            out.append(f'pub fn rung_{i}(size: f64) -> u64 {{ {g} }}')
            disp_f.append(f'{i} => Some(rung_{i}(size)),')
        elif ty == 'u64':
            out.append(f'pub fn rung_{i}(size: u64) -> u64 {{ {expr} }}')
            disp_u.append(f'{i} => Some(rung_{i}(size)),')
        else:
            raise AnchorLost(f'parse_filesize: rung {r[3]!r} parses an unexpected type {ty}')
    out.append('pub fn rung_f64(i: usize, size: f64) -> Option<u64> { match i { ' + ' '.join(disp_f) + ' _ => None } }')
    out.append('pub fn rung_u64(i: usize, size: u64) -> Option<u64> { match i { ' + ' '.join(disp_u) + ' _ => None } }')
    out.append('''
/// index of the rung that handles a (lower-cased) literal ending in `suf`: the FIRST rung whose suffix the
/// literal's unit ends with - exactly the control flow of the ladder.
pub fn first_matching_rung(unit: &str) -> Option<usize> {
    let mut i = 0;
    while i < N_RUNGS {
        if unit.ends_with(SUFFIX[i]) { return Some(i); }
        i += 1;
    }
    None
}
''')
    for suf, mult in DOC_UNITS:
        out.append(f'''
#[kani::proof]
#[kani::unwind({n + 2})]
fn c14_table_{suf}() {{
    // a literal "<digits>{suf}" reaches the first rung whose suffix it ends with
    let i = first_matching_rung("{suf}");
    kani::cover!(true);
    assert!(i.is_some(), "OBL C14.ladder.table: documented unit `{suf}` has a rung");
    let i = i.unwrap();
    assert!(SUFFIX[i] == "{suf}", "OBL C14.ladder.table: unit `{suf}` is not shadowed by an earlier rung");
    assert!(GUARD[i] == {len(suf)} && STRIP[i] == {len(suf)}, "OBL C14.ladder.table: `{suf}` strips exactly its own length");
}}
#[kani::proof]
#[kani::unwind({n + 2})]
fn c14_mult_{suf}() {{
    let i = first_matching_rung("{suf}");
    kani::assume(i.is_some());
    let i = i.unwrap();
    let n: u16 = kani::any();
    let expected: u64 = (n as u64) * ({mult});
    let got = match rung_f64(i, n as f64) {{ Some(v) => Some(v), None => rung_u64(i, n as u64) }};
    kani::cover!(true);
    assert!(got == Some(expected), "OBL C14.ladder.mult: <n>{suf} denotes n x {mult} bytes");
}}
// thorough tier: the same for every n < 2^32 (about 140 s per rung)
#[kani::proof]
#[kani::unwind({n + 2})]
fn c14_mult32_{suf}() {{
    let i = first_matching_rung("{suf}");
    kani::assume(i.is_some());
    let i = i.unwrap();
    let n: u32 = kani::any();
    kani::assume((n as u64) < (1u64 << 53) / ({mult}) && (n as u64) < {("(1u64 << 20)" if suf in ("mb", "gb", "tb") else "(1u64 << 32)")});
    let expected: u64 = (n as u64) * ({mult});
    let got = match rung_f64(i, n as f64) {{ Some(v) => Some(v), None => rung_u64(i, n as u64) }};
    kani::cover!(true);
    assert!(got == Some(expected), "OBL C14.ladder.mult32: <n>{suf} denotes n x {mult} bytes");
}}''')
    out.append('''
#[kani::proof]
fn canary_filesize_must_fail() {
    assert!(N_RUNGS == 0, "CANARY must fail");
}''')
    out.append('}')
    inj.new_file(FRAG_FILE, '\n'.join(out) + '\n')
    orig = s.text_of(it)
    r, d = frag_record('frag filesize ladder (SUFFIX/GUARD/STRIP tables, rung_i multipliers)', 'src/util/mod.rs',
                       'fn parse_filesize / every `if length > N && string.ends_with("S") { return match &string[..(length - M)].parse::<T>() { Ok(size) => Some(E), _ => None } }` rung in order; prologue and fall-through checked by shape',
                       orig, '\n'.join(out[:8 + n]), ['*size -> size (the parse result is a reference in the source)'],
                       'to_ascii_lowercase / replace / slicing / str::parse (std, trusted)')
    return dict(functions=[r], dropped=[d])


# --------------------------------------------------------------------------------------------------
# glob / LIKE -> regex translation tables (C12)
# --------------------------------------------------------------------------------------------------
REGEX_META = set('\\.+*?()|[]{}^$')          # metacharacters of regex syntax outside a character class
PRINTABLE = [chr(c) for c in range(32, 127)]


def _rust_str_value(lit):
    """decode the inside of a Rust "..." literal (only the escapes that occur here)"""
    out, i = [], 0
    while i < len(lit):
        if lit[i] == '\\':
            nxt = lit[i + 1]
            out.append({'\\': '\\', '"': '"', 'n': '\n', 't': '\t'}.get(nxt))
            if out[-1] is None:
                raise AnchorLost(f'unsupported escape \\{nxt} in pattern literal')
            i += 2
        else:
            out.append(lit[i]); i += 1
    return ''.join(out)


def _rust_lit(s):
    return '"' + s.replace('\\', '\\\\').replace('"', '\\"') + '"'


def _table(s, fn_name, wild):
    it = s.fn(fn_name)
    body = s.text[it['open']:it['end']]
    m = re.search(r'Regex::new\("((?:[^"\\]|\\.)*)"\)', body)
    if not m:
        raise AnchorLost(f'{fn_name}: Regex::new("...") literal not found')
    pat = _rust_str_value(m.group(1))
    if not (pat.startswith('(') and pat.endswith(')')):
        raise AnchorLost(f'{fn_name}: capture pattern is not of the form (a|b|...)')
    alts = []
    inner, i, cur = pat[1:-1], 0, ''
    while i < len(inner):
        ch = inner[i]
        if ch == '\\':
            cur += inner[i + 1]; i += 2
        elif ch == '|':
            alts.append(cur); cur = ''; i += 1
        elif ch in '()[]{}*+?.^$':
            raise AnchorLost(f'{fn_name}: alternative uses an unescaped regex operator {ch!r}')
        else:
            cur += ch; i += 1
    alts.append(cur)
    if any(len(a) != 1 for a in alts):
        raise AnchorLost(f'{fn_name}: an alternative is not a single (escaped) character: {alts}')
    mm = s.find_one(r'match\s+c\.index\(0\)\s*\{', (it['open'], it['close']), what=f'{fn_name}: match c.index(0) {{')
    o = mm.end() - 1
    c = s.match_close(o)
    arms = s.text[o:c + 1]
    em = re.search(r'_\s*=>\s*error_exit\([^)]*\),?', arms)
    if not em:
        raise AnchorLost(f'{fn_name}: `_ => error_exit(..)` arm not found')
    g = arms[:em.start()] + '_ => ERROR_EXIT,' + arms[em.end():]
    return alts, dedent(arms), dedent(g), s.text_of(it)


GLOB_PARTS = 8


def _table_module(name, alts, g, wild):
    lines = [f'pub fn {name}_captured(tok: &str) -> bool {{ matches!(tok, ' + ' | '.join(_rust_lit(a) for a in alts) + ') }',
             f'pub fn frag_{name}_tbl(tok: &str) -> &\'static str {{ match tok {g} }}',
             f'pub fn {name}_image<\'a>(tok: &\'a str) -> &\'a str {{ if {name}_captured(tok) {{ frag_{name}_tbl(tok) }} else {{ tok }} }}']
    safe = lambda t: ''.join(c if (c.isalnum() or c in ' .*?+-_%') else f'<U+{ord(c):04X}>' for c in t)
    per = (len(PRINTABLE) + GLOB_PARTS - 1) // GLOB_PARTS
    for part in range(GLOB_PARTS):
        lines += ['#[kani::proof]', f'fn c12_{name}_table_{part}() {{', '    kani::cover!(true);']
        for ch in PRINTABLE[part * per:(part + 1) * per]:
            if ch in wild:
                exp = wild[ch]
            elif ch in REGEX_META:
                exp = '\\' + ch
            else:
                exp = ch
            lines.append(f'    assert!({name}_image({_rust_lit(ch)}) == {_rust_lit(exp)}, "OBL C12.{name}.table: character {safe(ch)} must translate to {safe(exp)}");')
        lines.append('}')
    lines += ['#[kani::proof]', f'fn c12_{name}_no_error_arm() {{', '    kani::cover!(true);']
    for a in alts:
        lines.append(f'    assert!(frag_{name}_tbl({_rust_lit(a)}) != ERROR_EXIT, "OBL C12.{name}.table: captured token reaches the error_exit arm");')
    lines.append('}')
    return '\n'.join(lines)


def unit_globtables(inj, scratch):
    frag_begin(inj)
    s = src('src/util/glob.rs', scratch)
    recs, dropped = [], []
    out = ['pub mod glob {', 'use super::*;', 'pub const ERROR_EXIT: &str = "\\u{0}ERROR_EXIT";']
    for name, fn_name, wild in [('glob', 'convert_glob_to_pattern', {'*': '.*', '?': '.'}),
                                ('like', 'convert_like_to_pattern', {'%': '.*', '_': '.'})]:
        alts, arms, g, orig = _table(s, fn_name, wild)
        out.append(_table_module(name, alts, g, wild))
        r, d = frag_record(f'frag_{name}_tbl + {name}_captured', 'src/util/glob.rs',
                           f'fn {fn_name} / alternation literal of Regex::new split at top-level `|`, and the `match c.index(0) {{..}}` arm table',
                           orig, g, ['c.index(0) -> tok', '`_ => error_exit(..)` -> `_ => ERROR_EXIT` sentinel'],
                           'the regex engine: replace_all is assumed to replace each leftmost match of the alternation and copy every other character; anchoring `^(?i)..$`')
        recs.append(r); dropped.append(d)
    out.append('''
#[kani::proof]
fn canary_glob_must_fail() {
    assert!(glob_image("a") == "b", "CANARY must fail");
}''')
    out.append('}')
    inj.new_file(FRAG_FILE, '\n'.join(out) + '\n')
    return dict(functions=recs, dropped=dropped,
                assumptions=['regex crate: Regex::replace_all with a single-character alternation replaces exactly the listed characters, left to right, and copies all others (T3)'])


# --------------------------------------------------------------------------------------------------
# Criteria: lexicographic comparison, per-key dispatch and direction (C05)
# --------------------------------------------------------------------------------------------------
def unit_criteria(inj, scratch):
    """Criteria::cmp and Criteria::cmp_at: the WHOLE method bodies are copied verbatim into methods of shim
    types whose fields / helper methods stand for the generic receiver (no identifier renaming at all)."""
    frag_begin(inj)
    s = src('src/util/mod.rs', scratch)
    recs, dropped = [], []
    impl = s.item('impl', r'Ord\s+for\s+Criteria')
    it = s.item('fn', 'cmp', (impl['open'], impl['close']))
    body = dedent(s.text[it['open']:it['end']])
    r, d = frag_record('FragLex::cmp', 'src/util/mod.rs', 'impl Ord for Criteria / fn cmp (whole body, verbatim, as a method of shim type FragLex)', body, body,
                       ['receiver type Criteria<T> -> FragLex { values: Vec<u8>, .. } whose cmp_at(other, i) returns a symbolic per-key Ordering'],
                       'the generic receiver (Rc<Vec<Expr>>, Vec<T>), the real cmp_at (verified separately)')
    recs.append(r); dropped.append(d)
    cimpl = s.item('impl', r'Criteria')
    it2 = s.item('fn', 'cmp_at', (cimpl['open'], cimpl['close']))
    body2 = dedent(s.text[it2['open']:it2['end']])
    r, d = frag_record('FragCrit::cmp_at', 'src/util/mod.rs', 'impl Criteria / fn cmp_at (whole body, verbatim, as a method of shim type FragCrit)', body2, body2,
                       ['receiver type Criteria<T> -> FragCrit { fields: Vec<FragField>, orderings: Vec<bool>, .. } whose cmp_at_numbers / cmp_at_datetimes / '
                        'cmp_at_direct return symbolic Orderings (reversed when called with swapped receiver/argument)'],
                       'cmp_at_numbers / cmp_at_datetimes / cmp_at_direct (parse_filesize, parse_datetime, T::cmp), Expr::contains_numeric/datetime')
    recs.append(r); dropped.append(d)
    keyfns = ''
    for kf in ['cmp_at_numbers', 'cmp_at_direct', 'numeric_key']:
        kit = s.item('fn', kf, (cimpl['open'], cimpl['close']))
        kb = dedent(s.text[kit['open']:kit['end']])
        if kf == 'numeric_key':
            ksig = re.sub(r'\s+', ' ', s.text[kit['sig_start']:kit['open']]).strip()
            if ksig != 'fn numeric_key(value: &T) -> f64':
                raise AnchorLost(f'Criteria::numeric_key: signature changed: {ksig!r}')
            keyfns += f'    pub fn numeric_key(value: &KVal) -> f64 {kb}\n'
        else:
            keyfns += f'    pub fn {kf}(&self, other: &Self, i: usize) -> Ordering {kb}\n'
        r, d = frag_record(f'FragKey::{kf}', 'src/util/mod.rs', f'impl Criteria / fn {kf} (whole body, verbatim, as a method of shim type FragKey)', kb, kb,
                           ['values: Vec<T> -> Vec<KVal> where KVal is a size or another number in quarters whose to_string() is a shim text; parse_filesize on that text returns the size or None, parse::<f64>() its value'],
                           'parse_filesize (C14), the real Display of T')
        recs.append(r); dropped.append(d)
    text = f'''pub mod criteria {{
use super::*;
use std::cmp::Ordering;
// ---- per-key comparison bodies on a shim value type ----
// a key value is a size (a non-negative integer, what a numeric column prints) or another number in quarters (what an expression may
// print: negative or fractional; `Real(q)` stands for q / 4 and is only used for values that are not sizes)
#[derive(Clone, Copy, PartialEq, Eq, PartialOrd, Ord)] pub enum KVal {{ Size(u64), Real(i32) }}
pub struct KStr(pub KVal);
impl KVal {{ pub fn to_string(&self) -> KStr {{ KStr(*self) }} }}
impl KStr {{ pub fn parse<T: FromKey>(&self) -> Result<T, ()> {{ T::from_key(self.0) }} }}
pub trait FromKey: Sized {{ fn from_key(v: KVal) -> Result<Self, ()>; }}
impl FromKey for f32 {{ fn from_key(v: KVal) -> Result<f32, ()> {{ Ok(match v {{ KVal::Size(n) => n as f32, KVal::Real(q) => q as f32 / 4.0 }}) }} }}
impl FromKey for f64 {{ fn from_key(v: KVal) -> Result<f64, ()> {{ Ok(match v {{ KVal::Size(n) => n as f64, KVal::Real(q) => q as f64 / 4.0 }}) }} }}
impl FromKey for u64 {{ fn from_key(v: KVal) -> Result<u64, ()> {{ match v {{ KVal::Size(n) => Ok(n), KVal::Real(_) => Err(()) }} }} }}
impl FromKey for i64 {{ fn from_key(v: KVal) -> Result<i64, ()> {{ match v {{ KVal::Size(n) => Ok(n as i64), KVal::Real(q) if q % 4 == 0 => Ok((q / 4) as i64), _ => Err(()) }} }} }}
// parse_filesize: a size is its number; a negative or fractional text is not a size (C14.whole.*)
pub fn parse_filesize(s: &KStr) -> Option<u64> {{ match s.0 {{ KVal::Size(n) => Some(n), KVal::Real(_) => None }} }}
pub struct FragKey {{ pub values: Vec<KVal> }}
impl FragKey {{
{keyfns}
}}
pub struct FragField {{ pub numeric: bool, pub datetime: bool }}
impl FragField {{
    pub fn contains_numeric(&self) -> bool {{ self.numeric }}
    pub fn contains_datetime(&self) -> bool {{ self.datetime }}
}}
pub struct FragCrit {{ pub fields: Vec<FragField>, pub values: Vec<u8>, pub orderings: Vec<bool>, pub is_self: bool,
                       pub cn: Ordering, pub cd: Ordering, pub cs: Ordering }}
impl FragCrit {{
    fn rel(&self, other: &Self, c: Ordering) -> Ordering {{
        if self.is_self == other.is_self {{ Ordering::Equal }} else if self.is_self {{ c }} else {{ c.reverse() }}
    }}
    fn cmp_at_numbers(&self, other: &Self, _i: usize) -> Ordering {{ self.rel(other, self.cn) }}
    fn cmp_at_datetimes(&self, other: &Self, _i: usize) -> Ordering {{ self.rel(other, self.cd) }}
    fn cmp_at_direct(&self, other: &Self, _i: usize) -> Ordering {{ self.rel(other, self.cs) }}
    // ---- verbatim body of Criteria::cmp_at ----
    pub fn cmp_at(&self, other: &Self, i: usize) -> Ordering {body2}
}}
pub struct FragLex {{ pub values: Vec<u8>, pub ords: [Ordering; 3], pub is_self: bool }}
impl FragLex {{
    fn cmp_at(&self, other: &Self, i: usize) -> Ordering {{
        if self.is_self == other.is_self {{ Ordering::Equal }} else if self.is_self {{ self.ords[i] }} else {{ self.ords[i].reverse() }}
    }}
    // ---- verbatim body of <Criteria as Ord>::cmp ----
    pub fn cmp(&self, other: &Self) -> Ordering {body}
}}
{H('frag_criteria.kani.rs')}
}}
'''
    inj.new_file(FRAG_FILE, text)
    return dict(functions=recs, dropped=dropped)


def unit_orderby_arms(inj, scratch):
    """positional key arm and DESC arm of parse_order_by"""
    frag_begin(inj)
    s = src('src/parser.rs', scratch)
    it = s.fn('parse_order_by', impl='Parser')
    span = s.body_span(it)
    mm = s.find_one(r'match\s+ordering_field\.parse::<usize>\(\)\s*\{', span, what='parse_order_by: match ordering_field.parse::<usize>() {')
    o = mm.end() - 1
    c = s.match_close(o)
    am = re.search(r'Ok\((\w+)\)\s*=>', s.mask[o:c])
    if not am:
        raise AnchorLost('parse_order_by: Ok(idx) arm not found')
    binder = am.group(1)
    a, b0, b1 = s.arm(r'Ok\(' + binder + r'\)', (o, c), what='parse_order_by: Ok(idx) arm')
    arm = dedent(s.text[b0:b1])
    if 'self.' in arm:
        raise AnchorLost('parse_order_by: positional arm uses parser state')
    a2, d0, d1 = s.arm(r'Some\(Lexem::DescendingOrder\)', span, what='parse_order_by: Some(Lexem::DescendingOrder) arm')
    darm = dedent(s.text[d0:d1])
    if 'self.' in darm:
        raise AnchorLost('parse_order_by: DESC arm uses parser state')
    text = f'''pub mod orderby {{
use super::*;
pub fn frag_positional<T: Clone>(fields: &[T], {binder}: usize) -> Result<T, String> {{
    let actual_field = {arm};
    Ok(actual_field)
}}
pub fn frag_desc(order_by_directions: &mut Vec<bool>) -> Result<(), String> {{
    {darm}
    Ok(())
}}
{H('frag_orderby.kani.rs')}
}}
'''
    inj.new_file(FRAG_FILE, text)
    r1, d1_ = frag_record('frag_positional', 'src/parser.rs', 'fn parse_order_by / arm `Ok(idx) => ..` of `match ordering_field.parse::<usize>()`',
                          arm, arm, ['element type Expr -> generic T: Clone (instantiated with u8)'], 'token handling; Expr::clone')
    r2, d2_ = frag_record('frag_desc', 'src/parser.rs', 'fn parse_order_by / arm `Some(Lexem::DescendingOrder) => ..`', darm, darm, [], 'token handling')
    return dict(functions=[r1, r2], dropped=[d1_, d2_])


def unit_fieldclass(inj, scratch):
    rel = 'src/field.rs'
    s = src(rel, scratch)
    it = s.item('enum', 'Field')
    body = s.mask[it['open'] + 1:it['close']]
    # variants without cfg gates that need features
    variants = []
    pending_cfg = False
    for ln in body.split('\n'):
        t = ln.strip()
        if t.startswith('#[cfg'):
            pending_cfg = True
            continue
        m = re.match(r'(\w+),?$', t)
        if m:
            if not pending_cfg:
                variants.append(m.group(1))
            pending_cfg = False
    if len(variants) < 50:
        raise AnchorLost('enum Field: could not enumerate variants')
    arms = ' '.join(f'{i} => Field::{v},' for i, v in enumerate(variants[:-1]))
    gen = (f'    pub const N_FIELDS: u8 = {len(variants)};\n'
           f'    pub fn field_at(k: u8) -> Field {{ match k {{ {arms} _ => Field::{variants[-1]} }} }}\n')
    inj.append(rel, H('field.kani.rs').replace('/*GENERATED_FIELD_TABLE*/', gen))
    return dict(functions=[fn_record(s, 'is_numeric_field', 'K', impl='Field', how='whole function; postcondition asserted in an appended harness over every enum variant'),
                           fn_record(s, 'is_datetime_field', 'K', impl='Field', how='whole function; postcondition asserted in an appended harness over every enum variant')],
                dropped=['cfg-gated variants User/Group (text columns) are not enumerated'])


# --------------------------------------------------------------------------------------------------
# output formatters (C09)
# --------------------------------------------------------------------------------------------------
class _FT:
    def __init__(self, whole, template, argtext):
        self.whole, self.template, self.argtext = whole, template, argtext

    def group(self, k):
        return [self.whole, self.template, self.argtext][k]


def _format_template(s, it, what):
    """locate the single `format!("TEMPLATE", ARG, ..)` call in a function body (balanced parentheses)."""
    ms = s.find_all(r'format!\(', (it['open'], it['close']))
    if len(ms) != 1:
        raise AnchorLost(f'{what}: expected exactly one format!(..) call, found {len(ms)}')
    o = ms[0].end() - 1
    c = s.match_close(o)
    inner = s.text[o + 1:c]
    m = re.match(r'\s*"((?:[^"\\]|\\.)*)"\s*(,.*)?$', inner, flags=re.S)
    if not m:
        raise AnchorLost(f'{what}: format! does not start with a string literal')
    return _FT(s.text[ms[0].start():c + 1], m.group(1), (m.group(2) or '')[1:] if m.group(2) else '')


def _concat_expr(template, args, what):
    """Rust expression building the same String as format!(template, args..) for plain `{}` placeholders
    (Display of &str / String / char is the text itself - assumption listed in the evidence)."""
    parts = template.split('{}')
    if '{' in ''.join(parts) or '}' in ''.join(parts) or len(parts) - 1 != len(args):
        raise AnchorLost(f'{what}: format template is not a plain {{}} template matching its arguments')
    stmts = ['let mut verif_s = String::new();']
    for i, lit in enumerate(parts):
        if lit:
            stmts.append(f'verif_s.push_str("{lit}");')
        if i < len(args):
            stmts.append(f'verif_s.push_str(&({args[i]}).to_string());')
    stmts.append('verif_s')
    return '{ ' + ' '.join(stmts) + ' }'


def _split_args(argtext):
    args, depth, cur = [], 0, ''
    for ch in argtext:
        if ch in '([{':
            depth += 1
        elif ch in ')]}':
            depth -= 1
        if ch == ',' and depth == 0:
            if cur.strip():
                args.append(cur.strip())
            cur = ''
        else:
            cur += ch
    if cur.strip():
        args.append(cur.strip())
    return args


def unit_html(inj, scratch):
    rel = 'src/output/html.rs'
    s = src(rel, scratch)
    impl = s.item('impl', r'ResultsFormatter\s+for\s+HtmlFormatter')
    it = s.item('fn', 'format_element', (impl['open'], impl['close']))
    m = _format_template(s, it, 'HtmlFormatter::format_element')
    body = re.sub(r'\s+', ' ', s.text[it['open'] + 1:it['close']]).strip()
    if not re.fullmatch(r'Some\(format!\(.*\)\)', body):
        raise AnchorLost('HtmlFormatter::format_element is not `Some(format!(..))`')
    sig = s.mask[it['sig_start']:it['open']]
    pm = re.search(r'fn\s+format_element\s*\(\s*&mut\s+self\s*,\s*(\w+)\s*:\s*&str\s*,\s*(\w+)\s*:\s*&str\s*,\s*(\w+)\s*:\s*bool', sig)
    if not pm:
        raise AnchorLost('HtmlFormatter::format_element: unexpected signature')
    args = _split_args(m.group(2))
    expr = _concat_expr(m.group(1), args, 'HtmlFormatter::format_element')
    p1 = pm.group(1) if pm.group(1) != '_' else '_name'
    gen = (f'    // generated from `format!("{m.group(1)}", {", ".join(args)})` in HtmlFormatter::format_element\n'
           f'    pub fn frag_html_cell({p1}: &str, {pm.group(2)}: &str, {pm.group(3)}: bool) -> String {expr}\n')
    inj.append(rel, H('html.kani.rs').replace('/*GENERATED_CELL*/', gen))
    fns = [fn_record(s, 'escape_html', 'K', how='whole function; postcondition asserted in an appended harness')]
    r, d = frag_record('frag_html_cell', rel, 'HtmlFormatter::format_element / the format! template and its argument expressions',
                       s.text_of(it), gen, ['format!(T, a..) -> concatenation of the literal pieces of T and a.to_string() (plain {} placeholders only)'],
                       'the core::fmt machinery (format! does not terminate in CBMC even on concrete arguments: measured > 400 s)')
    return dict(functions=fns + [r], dropped=[d],
                assumptions=['format! with plain {} placeholders writes the literal pieces and the Display text of each argument in order; Display of &str/String/char is the text itself (std, T2)'])


def unit_flat(inj, scratch):
    rel = 'src/output/flat.rs'
    s = src(rel, scratch)
    impl = s.item('impl', r'ResultsFormatter\s+for\s+FlatWriter')
    it = s.item('fn', 'format_element', (impl['open'], impl['close']))
    body = s.text[it['open']:it['end']]
    m = _format_template(s, it, 'FlatWriter::format_element')
    args = _split_args(m.group(2))
    expr = _concat_expr(m.group(1), args, 'FlatWriter::format_element')
    g = body.replace(m.group(0), expr)
    if 'format!' in g:
        raise AnchorLost('FlatWriter::format_element: more than one format! call')
    sig = s.mask[it['sig_start']:it['open']]
    pm = re.search(r'fn\s+format_element\s*\(\s*&mut\s+self\s*,\s*(\w+)\s*:\s*&str\s*,\s*(\w+)\s*:\s*&str\s*,\s*(\w+)\s*:\s*bool', sig)
    if not pm:
        raise AnchorLost('FlatWriter::format_element: unexpected signature')
    p1 = pm.group(1) if pm.group(1) != '_' else '_name'
    gen = (f'    // FlatWriter::format_element, verbatim, with its format! call replaced by the equivalent concatenation\n'
           f'    impl FlatWriter {{ pub fn frag_format_element(&mut self, {p1}: &str, {pm.group(2)}: &str, {pm.group(3)}: bool) -> Option<String> {g} }}\n')
    inj.append(rel, H('flat.kani.rs').replace('/*GENERATED_CELL*/', gen))
    r, d = frag_record('FlatWriter::frag_format_element', rel, 'FlatWriter::format_element (whole body) with format!(T, a..) replaced by concatenation',
                       dedent(body), gen, ['format!(T, a..) -> concatenation (plain {} placeholders only)'], 'the core::fmt machinery')
    return dict(functions=[r, fn_record(s, 'row_ended', 'K', how='whole function; postcondition asserted in an appended harness')], dropped=[d],
                assumptions=['format! with plain {} placeholders concatenates (std, T2)'])


# --------------------------------------------------------------------------------------------------
# Lexer::next_lexem(): keyword / operator-word table (C11)
# --------------------------------------------------------------------------------------------------
def unit_lexwords(inj, scratch):
    frag_begin(inj)
    s = src('src/lexer.rs', scratch)
    it = s.fn('next_lexem', impl='Lexer')
    a, b0, b1 = s.arm(r'LexingMode::RawString', (s.find_one(r'let\s+lexem\s*=\s*match\s+mode\s*\{', s.body_span(it), what='next_lexem: let lexem = match mode {').end(), it['close']),
                      what='next_lexem: final `LexingMode::RawString => match s.to_lowercase().as_str() {..}` arm')
    block = dedent(s.text[b0:b1])
    if not re.match(r'match\s+s\.to_lowercase\(\)\.as_str\(\)\s*\{', block):
        raise AnchorLost('next_lexem: RawString arm is not `match s.to_lowercase().as_str() {..}`')
    text = f'''pub mod lexwords {{
use super::*;
use crate::lexer::Lexem;
pub struct FragLexer {{ pub before_from: bool, pub after_where: bool }}
pub const ASC_SKIPPED: &str = "\\u{{0}}NEXT-TOKEN";
impl FragLexer {{
    // stands for the recursive call that fetches the token after `asc`
    fn next_lexem(&mut self) -> Option<Lexem> {{ Some(Lexem::RawString(String::from(ASC_SKIPPED))) }}
    // ---- verbatim: the RawString arm of the final `match mode` of Lexer::next_lexem ----
    pub fn classify(&mut self, s: String) -> Option<Lexem> {{
        {block}
    }}
}}
{H('frag_lexwords.kani.rs')}
}}
'''
    inj.new_file(FRAG_FILE, text)
    r, d = frag_record('FragLexer::classify', 'src/lexer.rs', 'fn Lexer::next_lexem / arm `LexingMode::RawString => match s.to_lowercase().as_str() {..}` of the final `match mode` (verbatim, as a method of a shim lexer)',
                       block, block, ['receiver Lexer -> FragLexer { before_from, after_where }; the recursive self.next_lexem() after `asc` returns a sentinel token'],
                       'character scanning (how a word is delimited), quote handling, date / expression look-ahead')
    return dict(functions=[r], dropped=[d])


# --------------------------------------------------------------------------------------------------
# function::get_value(): string arms (C16)
# --------------------------------------------------------------------------------------------------
SCALAR_ARMS = ['Substring', 'Length', 'Coalesce', 'Concat', 'ConcatWs', 'Replace', 'Trim', 'LTrim', 'RTrim',
               'Lower', 'Upper', 'InitCap', 'Abs', 'Least', 'Greatest', 'Sqrt', 'Year', 'Month', 'Day', 'DayOfWeek']


def unit_scalar(inj, scratch):
    frag_begin(inj)
    s = src('src/function.rs', scratch)
    it = s.fn('get_value')
    span = s.body_span(it)
    recs, dropped = [], []
    out = ['pub mod scalar {', 'use super::*;', H('frag_scalar_prelude.rs')]
    for arm_name in SCALAR_ARMS:
        a, b0, b1 = s.arm(r'Some\(Function::' + arm_name + r'\)', span, what=f'get_value arm Some(Function::{arm_name})')
        body = dedent(s.text[b0:b1])
        if 'entry' in re.findall(r'\b\w+\b', s.mask[b0:b1]) or 'file_info' in re.findall(r'\b\w+\b', s.mask[b0:b1]):
            raise AnchorLost(f'get_value arm {arm_name} uses entry / file_info')
        expr = body if body.startswith('{') else '{ ' + body + ' }'
        out.append(f'pub fn frag_fn_{arm_name.lower()}(function_arg: String, function_args: Vec<String>) -> Variant {expr}')
        r, d = frag_record(f'frag_fn_{arm_name.lower()}', 'src/function.rs', f'fn get_value / arm `Some(Function::{arm_name}) => ..` (verbatim)', body, body,
                           ['Variant / VariantType -> shim types recording which constructor was called with which value'], 'the other arms, Variant string formatting')
        recs.append(r); dropped.append(d)
    out.append(H('frag_scalar.kani.rs'))
    out.append('}')
    inj.new_file(FRAG_FILE, '\n'.join(out) + '\n')
    return dict(functions=recs, dropped=dropped)


def unit_utilmod(inj, scratch):
    rel = 'src/util/mod.rs'
    s = src(rel, scratch)
    inj.append(rel, H('utilmod.kani.rs'))
    return dict(functions=[fn_record(s, 'parse_filesize', 'K', how='whole real function; postcondition asserted on concrete witness literals in an appended harness')], dropped=[])


# --------------------------------------------------------------------------------------------------
# conforms(): regex cache keys of the string arm (C03 / C12)
# --------------------------------------------------------------------------------------------------
def unit_regexkeys(inj, scratch):
    frag_begin(inj)
    s = src('src/searcher.rs', scratch)
    it = s.fn('conforms', impl='Searcher')
    a, b0, b1 = s.arm(r'VariantType::String', s.body_span(it), what='conforms arm VariantType::String')
    fns, rec_text = [], []
    for opname in ['Eq', 'Ne', 'Rx', 'NotRx', 'Like', 'NotLike']:
        a2, c0, c1 = s.arm(r'Op::' + opname, (b0, b1), what=f'conforms string arm / Op::{opname}')
        m = re.search(r'self\.regex_cache\.get\(&(\w+)\)', s.mask[c0:c1])
        if not m:
            raise AnchorLost(f'conforms string arm Op::{opname}: no regex_cache.get(&key) lookup')
        key = m.group(1)
        ins = re.search(r'self\.regex_cache\.insert\((\w+),', s.mask[c0:c1])
        if not ins or ins.group(1) != key:
            raise AnchorLost(f'conforms string arm Op::{opname}: lookup key and insert key differ')
        if key == 'val':
            expr = 'val.clone()'
        else:
            lm = re.search(r'let\s+' + key + r'\s*=\s*', s.mask[c0:c1])
            if not lm:
                raise AnchorLost(f'conforms string arm Op::{opname}: definition of {key} not found')
            st = c0 + lm.end()
            en = s.mask.index(';', st)
            expr = s.text[st:en]
            if re.search(r'\bself\b|\bfield_value\b', expr):
                raise AnchorLost(f'conforms string arm Op::{opname}: cache key depends on more than the pattern text')
        fns.append(f'pub fn key_{opname.lower()}(val: String) -> String {{ {expr} }}')
        rec_text.append(f'Op::{opname}: {expr}')
    text = 'pub mod regexkeys {\nuse super::*;\n' + '\n'.join(fns) + '\n' + H('frag_regexkeys.kani.rs') + '\n}\n'
    inj.new_file(FRAG_FILE, text)
    r, d = frag_record('key_eq .. key_notlike', 'src/searcher.rs', 'fn conforms / String arm: the expression used as regex_cache key in each of the Op::Eq/Ne/Rx/NotRx/Like/NotLike sub-arms (lookup and insert must use the same key)',
                       '\n'.join(rec_text), '\n'.join(fns), [], 'the regex compilation and matching themselves')
    return dict(functions=[r], dropped=[d])


def unit_strarm(inj, scratch):
    """The whole `VariantType::String => { .. }` arm of Searcher::conforms, verbatim, as a method of a shim Searcher."""
    frag_begin(inj)
    s = src('src/searcher.rs', scratch)
    it = s.fn('conforms', impl='Searcher')
    a, b0, b1 = s.arm(r'VariantType::String', s.body_span(it), what='conforms arm VariantType::String')
    if s.mask[b0] != '{':
        raise AnchorLost('conforms arm VariantType::String is not a block')
    block = dedent(s.text[b0:b1])
    text = ('pub mod strarm {\n' + H('frag_strarm_prelude.rs') + '\nimpl Searcher {\n// ---- verbatim: the block of the arm `VariantType::String => {..}` of fn conforms ----\n'
            '#[allow(unreachable_code, unused_variables)]\npub fn frag_string_arm(&mut self, field_value: &SV, value: &SV, op: &Op) -> bool ' + block + '\n}\n' + H('frag_strarm.kani.rs') + '\n}\n')
    inj.new_file(FRAG_FILE, text)
    r, d = frag_record('strarm::Searcher::frag_string_arm', 'src/searcher.rs', 'fn conforms / arm `VariantType::String => {..}` of `match field_value.get_type()` (whole block, verbatim, as a method of a shim Searcher)',
                       block, block, ['Variant -> SV (to_string() gives its text); Regex -> recording shim (compiled text, is_match answers a harness-chosen verdict); regex_cache -> one-entry shim map; '
                                      'convert_glob_to_pattern / convert_like_to_pattern -> tagging shims (their tables: C12.glob/like.table.*); is_glob and Op are the real items'],
                       'regex compilation and matching (T3); get_column_expr_value (C02.operands); type dispatch')
    return dict(functions=[r], dropped=[d], assumptions=['regex crate: Regex::new(p).is_match(s) decides whether s matches p (T3)'])


def unit_tokenloop(inj, scratch):
    """Parser::parse: the body of the token collection loop `while let Some(lexem) = lexer.next_lexem() {..}` (verbatim)."""
    frag_begin(inj)
    s = src('src/parser.rs', scratch)
    it = s.fn('parse', impl='Parser')
    a, o, c = s.block_after(r'while\s+let\s+Some\(lexem\)\s*=\s*lexer\.next_lexem\(\)', s.body_span(it), what='Parser::parse token loop')
    body = dedent(s.text[o:c + 1])
    text = ("""pub mod tokenloop {
use crate::lexer::Lexem;
pub struct Parser { pub lexems: Vec<Lexem> }
impl Parser {
// ---- verbatim: body of `while let Some(lexem) = lexer.next_lexem()` in Parser::parse ----
pub fn frag_collect(&mut self, lexem: Lexem) """ + body + """
}
fn kept(l: Lexem) -> bool {
    let mut p = Parser { lexems: Vec::new() };
    let copy = l.clone();
    p.frag_collect(l);
    p.lexems.len() == 1 && p.lexems[0] == copy
}
// every token the lexer produces reaches the parser - in particular an empty quoted literal, which is a value
#[kani::proof]
#[kani::unwind(8)]
fn c02_token_loop() {
    kani::cover!(true);
    assert!(kept(Lexem::String(String::new())), "OBL C02.literal.empty: the empty quoted literal is kept as a token");
    assert!(kept(Lexem::String(String::from("a"))), "OBL C02.literal.empty: quoted literal");
    assert!(kept(Lexem::RawString(String::from("name"))), "OBL C02.literal.empty: word");
    assert!(kept(Lexem::Comma), "OBL C02.literal.empty: comma");
    assert!(kept(Lexem::Operator(String::from("="))), "OBL C02.literal.empty: operator");
}
#[kani::proof]
#[kani::unwind(8)]
fn canary_tokenloop_must_fail() {
    let mut p = Parser { lexems: Vec::new() };
    p.frag_collect(Lexem::Comma);
    assert!(p.lexems.len() == 0, "CANARY must fail");
}
}
""")
    inj.new_file(FRAG_FILE, text)
    r, d = frag_record('tokenloop::Parser::frag_collect', 'src/parser.rs', 'fn Parser::parse / body of `while let Some(lexem) = lexer.next_lexem() {..}` (verbatim, as a method of a shim Parser with the real Lexem type)',
                       body, body, ['Parser -> shim struct with the field lexems: Vec<Lexem>'], 'the lexer; everything after the loop')
    return dict(functions=[r], dropped=[d])


def unit_variant(inj, scratch):
    rel = 'src/function.rs'
    s = src(rel, scratch)
    inj.append(rel, H('function.kani.rs'))
    return dict(functions=[fn_record(s, 'to_int', 'K', impl='Variant', how='whole real function on concrete witness literals'),
                           fn_record(s, 'to_bool', 'K', impl='Variant', how='whole real function on concrete witness literals'),
                           fn_record(s, 'from_signed_string', 'K', impl='Variant', how='whole real function on concrete witness literals')], dropped=[])


# --------------------------------------------------------------------------------------------------
# Display for Expr: the per-row cache key (C15: each column is evaluated on its own)
# --------------------------------------------------------------------------------------------------
def unit_exprkey(inj, scratch):
    frag_begin(inj)
    s = src('src/expr.rs', scratch)
    impl = s.item('impl', r'Display\s+for\s+Expr')
    it = s.item('fn', 'fmt', (impl['open'], impl['close']))
    body = dedent(s.text[it['open']:it['end']])
    helpers = ''
    names = []
    # helper functions of `impl Expr` that take a Formatter (e.g. fmt_operand) are copied verbatim too
    for sp in s.impl_spans('Expr'):
        for m in s.find_all(r'\bfn\s+(\w+)\s*\(', sp):
            hit = s.item('fn', m.group(1), sp)
            sig = s.mask[hit['sig_start']:hit['open']]
            if 'Formatter' in sig:
                helpers += '    ' + dedent(s.text[hit['sig_start']:hit['end']]).replace('pub fn', 'fn') + '\n'
                names.append(m.group(1))
    text = f'''pub mod exprkey {{
use crate::operators::{{ArithmeticOp, LogicalOp, Op}};
{H('frag_exprkey_prelude.rs')}
impl Expr {{
    // ---- verbatim: body of `impl Display for Expr {{ fn fmt }}` ----
    pub fn fmt(&self, fmt: &mut Formatter) -> fmt::Result {body}
    // ---- verbatim: Formatter-taking helpers of `impl Expr` ({", ".join(names) or "none"}) ----
{helpers}
}}
{H('frag_exprkey.kani.rs')}
}}
'''
    inj.new_file(FRAG_FILE, text)
    r, d = frag_record('exprkey::Expr::fmt', 'src/expr.rs', 'impl Display for Expr / fn fmt (whole body, verbatim) and the Formatter-taking helpers of impl Expr',
                       body + helpers, body + helpers,
                       ['Expr -> shim struct with the same field names; Field / Function -> shim enums whose to_string() is the variant name; '
                        'std::fmt::Formatter -> shim that appends to a String (write_str / write_char)'],
                       'core::fmt (to_string through the real Display machinery does not terminate in CBMC)')
    return dict(functions=[r], dropped=[d])


# --------------------------------------------------------------------------------------------------
# Searcher::get_column_expr_value / negate_value on shim types (C15)
# --------------------------------------------------------------------------------------------------
def unit_colvalue(inj, scratch):
    frag_begin(inj)
    s = src('src/searcher.rs', scratch)
    it = s.fn('get_column_expr_value', impl='Searcher')
    body = dedent(s.text[it['open']:it['end']])
    try:
        it2 = s.fn('negate_value', impl='Searcher')
        neg = dedent(s.text[it2['open']:it2['end']])
        negfn = f'    fn negate_value(value: Variant) -> Variant {neg}\n'
    except AnchorLost:
        negfn = ''
    text = f'''pub mod colvalue {{
{H('frag_colvalue_prelude.rs')}
impl Searcher {{
    // ---- verbatim: body of Searcher::get_column_expr_value ----
    pub fn get_column_expr_value(&mut self, entry: Option<&DirEntry>, file_info: &Option<FileInfo>, file_map: &mut HashMap<String, String>,
                                 buffer_data: Option<&Vec<HashMap<String, String>>>, column_expr: &Expr) -> Variant {body}
    // ---- verbatim: body of Searcher::negate_value (when present) ----
{negfn}
}}
{H('frag_colvalue.kani.rs')}
}}
'''
    inj.new_file(FRAG_FILE, text)
    r, d = frag_record('colvalue::Searcher::get_column_expr_value (+ negate_value)', 'src/searcher.rs',
                       'impl Searcher / fn get_column_expr_value and fn negate_value (whole bodies, verbatim, as methods of a shim Searcher)',
                       body + negfn, body + negfn,
                       ['Searcher, DirEntry, FileInfo, Expr, Variant, HashMap, ArithmeticOp -> shim types with the same member names: get_field_value / '
                        'get_function_value return preset values, HashMap is an association list, calc records its operands'],
                       'get_field_value, get_function_value, Display for Expr (verified separately as C15.display.*), ArithmeticOp::calc (C15.calc.table)')
    return dict(functions=[r], dropped=[d])


def unit_rowproto(inj, scratch):
    """ResultsWriter::write_row (whole body, verbatim) on a shim writer that records the formatter protocol."""
    frag_begin(inj)
    s = src('src/output/mod.rs', scratch)
    it = s.fn('write_row', impl='ResultsWriter')
    body = dedent(s.text[it['open']:it['end']])
    text = f'''pub mod rowproto {{
{H('frag_rowproto_prelude.rs')}
impl ResultsWriter {{
    // ---- verbatim: body of ResultsWriter::write_row ----
    pub fn write_row(&mut self, writer: &mut dyn Write, values: Vec<(String, String)>) -> std::io::Result<()> {body}
}}
{H('frag_rowproto.kani.rs')}
}}
'''
    inj.new_file(FRAG_FILE, text)
    r, d = frag_record('rowproto::ResultsWriter::write_row', 'src/output/mod.rs', 'impl ResultsWriter / fn write_row (whole body, verbatim, on a shim writer)',
                       body, body, ['write_row_start / write_row_item / write_row_end -> recording stubs; dyn Write -> marker trait'],
                       'the formatter calls behind write_row_item (verified per formatter under C09.*.cell), write! to the real writer')
    return dict(functions=[r], dropped=[d])


# --------------------------------------------------------------------------------------------------
# parse_datetime(): precision -> [start, finish] time of day (C13) and range rejection (C10)
# --------------------------------------------------------------------------------------------------
def unit_dateprecision(inj, scratch):
    frag_begin(inj)
    s = src('src/util/datetime.rs', scratch)
    it = s.fn('parse_datetime')
    span = s.body_span(it)
    m0 = s.find_one(r'let\s+day\s*:\s*u32\s*=[^;]*;', span, what='parse_datetime: let day: u32 = ..;')
    # the time-of-day block ends with the range check `if hour_start > 23 .. { return Err(..) }`; the calendar part follows it
    arm = s.arm(r'Some\(cap\)', span, what='parse_datetime: arm Some(cap)')
    rc = s.block_after(r'if\s+hour_start\s*>\s*23', (arm[1], arm[2]), what='parse_datetime: range check `if hour_start > 23 ..`')
    tod_end = rc[2] + 1
    if not m0.end() < rc[0]:
        raise AnchorLost('parse_datetime: time-of-day block is not in front of the calendar conversion')
    t = dedent(s.text[m0.end():tod_end].strip())
    if re.search(r'\b(year|month|day|Local|date)\b', s.mask[m0.end():tod_end]):
        raise AnchorLost('parse_datetime: time-of-day block mentions the calendar date')
    # which variables feed start / finish: with_hour(hour_start) .. with_second(sec_finish)
    tail = re.sub(r'\s+', '', s.mask[tod_end:arm[2]])
    uses = re.findall(r'\.with_(hour|minute|second)\((\w+)\)', tail)
    expect = [('hour', 'hour_start'), ('minute', 'min_start'), ('second', 'sec_start'), ('hour', 'hour_finish'), ('minute', 'min_finish'), ('second', 'sec_finish')]
    if uses[:6] != expect:
        raise AnchorLost(f'parse_datetime: start / finish are not built from (hour,min,sec)_start / _finish in that order: {uses[:6]}')
    # ---- calendar fragment: from the end of the range check `if hour_start > 23 .. {{ return Err(..) }}` to the end of the `Some(cap) => {{..}}` arm
    cal = dedent(s.text[rc[2] + 1:arm[2] - 1].strip('\n'))
    if not cal.strip():
        raise AnchorLost('parse_datetime: nothing follows the time-of-day range check')
    cal_text = f'''
// ---- shim chrono for the calendar fragment: a date exists iff it is a calendar date (proleptic Gregorian); local-time gaps are not modelled ----
#[derive(Clone, Copy, PartialEq, Debug)] pub struct DT {{ pub y: i32, pub mo: u32, pub d: u32, pub h: u32, pub mi: u32, pub s: u32 }}
pub fn leap(y: i32) -> bool {{ (y % 4 == 0 && y % 100 != 0) || y % 400 == 0 }}
pub fn dim(y: i32, m: u32) -> u32 {{ match m {{ 1 | 3 | 5 | 7 | 8 | 10 | 12 => 31, 4 | 6 | 9 | 11 => 30, 2 => if leap(y) {{ 29 }} else {{ 28 }}, _ => 0 }} }}
pub fn valid_date(y: i32, m: u32, d: u32) -> bool {{ d >= 1 && d <= dim(y, m) }}
pub enum LocalResult<T> {{ None, Single(T), Ambiguous(T, T) }}
pub struct Local;
impl Local {{ pub fn with_ymd_and_hms(&self, y: i32, mo: u32, d: u32, h: u32, mi: u32, s: u32) -> LocalResult<DT> {{
    if valid_date(y, mo, d) && h < 24 && mi < 60 && s < 60 {{ LocalResult::Single(DT {{ y, mo, d, h, mi, s }}) }} else {{ LocalResult::None }} }} }}
pub struct NaiveDate;
#[derive(Clone, Copy)] pub struct ND {{ pub y: i32, pub mo: u32, pub d: u32 }}
impl NaiveDate {{ pub fn from_ymd_opt(y: i32, mo: u32, d: u32) -> Option<ND> {{ if valid_date(y, mo, d) {{ Some(ND {{ y, mo, d }}) }} else {{ None }} }} }}
impl ND {{ pub fn and_hms_opt(&self, h: u32, mi: u32, s: u32) -> Option<DT> {{ if h < 24 && mi < 60 && s < 60 {{ Some(DT {{ y: self.y, mo: self.mo, d: self.d, h, mi, s }}) }} else {{ None }} }} }}
impl DT {{
    pub fn naive_local(&self) -> DT {{ *self }}
    pub fn with_hour(&self, h: u32) -> Option<DT> {{ if h < 24 {{ Some(DT {{ h, ..*self }}) }} else {{ None }} }}
    pub fn with_minute(&self, mi: u32) -> Option<DT> {{ if mi < 60 {{ Some(DT {{ mi, ..*self }}) }} else {{ None }} }}
    pub fn with_second(&self, s: u32) -> Option<DT> {{ if s < 60 {{ Some(DT {{ s, ..*self }}) }} else {{ None }} }}
}}
// ---- verbatim: parse_datetime, arm Some(cap), everything after the time-of-day range check ----
#[allow(unreachable_code)]
pub fn frag_calendar(year: i32, month: u32, day: u32, hour_start: u32, min_start: u32, sec_start: u32, hour_finish: u32, min_finish: u32, sec_finish: u32, s: &str) -> Result<(DT, DT), String> {{
    {cal}
}}
'''
    text = f'''pub mod dateprecision {{
use super::*;
{cal_text}
// shims for the regex captures: a capture group is either absent or the number it spells
#[derive(Clone, Copy)] pub struct SVal(pub u32);
#[derive(Clone, Copy)] pub struct SStr(pub u32);
impl SVal {{ pub fn as_str(&self) -> SStr {{ SStr(self.0) }} }}
impl SStr {{ pub fn parse(&self) -> Result<u32, ()> {{ Ok(self.0) }} }}
pub struct SCap {{ pub g6: Option<SVal>, pub g7: Option<SVal>, pub g8: Option<SVal> }}
impl SCap {{ pub fn get(&self, i: usize) -> Option<SVal> {{ match i {{ 6 => self.g6, 7 => self.g7, 8 => self.g8, _ => None }} }} }}
pub fn frag_time_of_day(cap: &SCap, s: &str) -> Result<(u32, u32, u32, u32, u32, u32), String> {{
    {t}
    Ok((hour_start, min_start, sec_start, hour_finish, min_finish, sec_finish))
}}
{H('frag_dateprecision.kani.rs')}
}}
'''
    inj.new_file(FRAG_FILE, text)
    r, d = frag_record('frag_time_of_day', 'src/util/datetime.rs', 'fn parse_datetime / all statements from `let day: u32 = ..;` (excluded) to the range check `if hour_start > 23 ..` (included), verbatim; the use of the six variables in with_hour/with_minute/with_second is checked by shape',
                       t, t, ['regex Captures -> shim whose groups 6,7,8 are absent or spell a number (str::parse on them succeeds: the regex only captures digits)'],
                       'DATE_REGEX matching, year/month/day, chrono calendar conversion, today/yesterday/offset literals')
    r2, d2 = frag_record('frag_calendar', 'src/util/datetime.rs', 'fn parse_datetime / arm `Some(cap) => {..}`: everything after the range check `if hour_start > 23 .. { return Err(..) }` (verbatim)',
                         cal, cal, ['chrono Local / LocalResult / NaiveDate / NaiveDateTime -> shim calendar (a date exists iff it is a Gregorian calendar date)'], 'chrono itself; local-time gaps (DST)')
    return dict(functions=[r, r2], dropped=[d, d2],
                assumptions=['chrono: with_hour(h)/with_minute(m)/with_second(s) return Some exactly for h < 24, m < 60, s < 60', 'DATE_REGEX groups 6-8 capture 1-2 digits, so parsing them as u32 cannot fail',
                             'chrono: Local.with_ymd_and_hms / NaiveDate::from_ymd_opt succeed exactly for Gregorian calendar dates (shim calendar); local midnight always exists (DST gaps not modelled)'])


# --------------------------------------------------------------------------------------------------
# capabilities.rs: bit -> name table, flag letters (C04)
# --------------------------------------------------------------------------------------------------
LINUX_CAPS = ['cap_chown', 'cap_dac_override', 'cap_dac_read_search', 'cap_fowner', 'cap_fsetid', 'cap_kill', 'cap_setgid', 'cap_setuid',
              'cap_setpcap', 'cap_linux_immutable', 'cap_net_bind_service', 'cap_net_broadcast', 'cap_net_admin', 'cap_net_raw', 'cap_ipc_lock',
              'cap_ipc_owner', 'cap_sys_module', 'cap_sys_rawio', 'cap_sys_chroot', 'cap_sys_ptrace', 'cap_sys_pacct', 'cap_sys_admin',
              'cap_sys_boot', 'cap_sys_nice', 'cap_sys_resource', 'cap_sys_time', 'cap_sys_tty_config', 'cap_mknod', 'cap_lease',
              'cap_audit_write', 'cap_audit_control', 'cap_setfcap', 'cap_mac_override', 'cap_mac_admin', 'cap_syslog', 'cap_wake_alarm',
              'cap_block_suspend', 'cap_audit_read', 'cap_perfmon', 'cap_bpf', 'cap_checkpoint_restore']


def unit_caps(inj, scratch):
    rel = 'src/util/capabilities.rs'
    s = src(rel, scratch)
    it = s.fn('parse_capabilities')
    body_m = s.mask[it['open']:it['close']]
    body_t = s.text[it['open']:it['close']]
    his = [m for m in re.finditer(r'if\s+(caps\.len\(\)\s*[<>=]+\s*[\w:]+)\s*\{', body_m)]
    his = [m for m in his if 'return' not in body_m[m.end():m.end() + 40]]
    if len(his) != 1:
        raise AnchorLost('parse_capabilities: the guard of the second capability word was not found')
    hi = his[0]
    guard = body_t[hi.start(1):hi.end(1)]
    consts = re.findall(r'^\s*(?:pub\s+)?const\s+\w+\s*:\s*usize\s*=\s*[^;]+;', s.text, flags=re.M)
    calls = [(m.start(), m.group(1), re.sub(r'\s+', ' ', m.group(2)).strip())
             for m in re.finditer(r'check_cap!\(\s*(\w+)\s*,\s*([^,]+?)\s*,\s*permitted\s*,\s*inherited\s*,\s*effective\s*,\s*result\s*\)', body_m)]
    if len(calls) < 30:
        raise AnchorLost(f'parse_capabilities: only {len(calls)} check_cap! invocations of the expected shape')
    low = [(n, c) for (p, n, c) in calls if p < hi.start()]
    high = [(n, c) for (p, n, c) in calls if p > hi.start()]
    slices = re.findall(r'let\s+(permitted|inherited)\s*=\s*u32::from_le_bytes\(caps\[(\d+)\.\.(\d+)\]\.try_into\(\)\.unwrap\(\)\);', re.sub(r'[ \t]+', ' ', body_m))
    mac = s.find_one(r'macro_rules!\s*check_cap\s*\{', None, what='macro_rules! check_cap')
    mo = mac.end() - 1
    mtext = re.sub(r'\s+', ' ', s.text[mo:s.match_close(mo) + 1])
    want = ('{ ($cap_name: ident, $code: expr, $permitted: ident, $inherited: ident, $effective: ident, $result: ident) => { '
            'if let Some(str_result) = check_capability($permitted, $inherited, 1 << $code) { '
            '$result.push(stringify!($cap_name).to_owned() + "=" + &$effective + &str_result); } }; }')
    if mtext != want:
        raise AnchorLost('macro check_cap! changed shape (expected: bit = 1 << code, text = name "=" effective flags)')
    eff = re.search(r'let\s+effective\s*=\s*if\s+(.*?)\s*\{\s*String::from\("e"\)\s*\}\s*else\s*\{\s*String::new\(\)\s*\}\s*;', re.sub(r'\s+', ' ', body_t))
    if not eff:
        raise AnchorLost('parse_capabilities: effective flag expression changed shape')
    gen = ['    pub const LOW: [(&str, u32); %d] = [%s];' % (len(low), ', '.join(f'("{n}", {c})' for n, c in low)),
           '    pub const HIGH: [(&str, u32); %d] = [%s];' % (len(high), ', '.join(f'("{n}", {c})' for n, c in high)),
           '    pub const SLICES: [(&str, usize, usize); %d] = [%s];' % (len(slices), ', '.join(f'("{a}", {b}, {c})' for a, b, c in slices)),
           f'    pub fn frag_effective(caps: &[u8]) -> bool {{ {eff.group(1)} }}',
           f'    pub fn frag_high_guard(caps: &[u8]) -> bool {{ {guard} }}']
    asserts = []
    for i, name in enumerate(LINUX_CAPS):
        tbl, k = ('LOW', i) if i < 32 else ('HIGH', i - 32)
        asserts.append(f'        assert!({tbl}.len() > {k} && {tbl}[{k}].0 == "{name}" && {tbl}[{k}].1 == {k}, "OBL C04.caps.names: capability {i} is {name}");')
    text = H('caps.kani.rs').replace('/*GENERATED_TABLES*/', '\n'.join(gen)).replace('/*GENERATED_ASSERTS*/', '\n'.join(asserts))
    inj.append(rel, text)
    r, d = frag_record('LOW / HIGH / SLICES tables, frag_effective', rel, 'fn parse_capabilities / every `check_cap!(name, code, ..)` invocation in order, split at `if caps.len() >= 20`; the `u32::from_le_bytes(caps[a..b]..)` slices; the effective-flag condition; macro check_cap! compared with its expected text',
                       s.text_of(it)[:1200], '\n'.join(gen), [], 'Vec<String> building and join(" ")')
    return dict(functions=[fn_record(s, 'check_capability', 'K', how='whole real function; postcondition asserted for all u32 triples with a single-bit capability'), r], dropped=[d])


def unit_nameutils(inj, scratch):
    rel = 'src/util/mod.rs'
    s = src(rel, scratch)
    inj.append(rel, H('nameutils.kani.rs'))
    return dict(functions=[fn_record(s, 'has_extension', 'K', how='whole real function; postcondition asserted on bounded symbolic names'),
                           fn_record(s, 'is_hidden', 'K', how='whole real function; postcondition asserted on bounded symbolic names')], dropped=[])


# --------------------------------------------------------------------------------------------------
# conforms(): operand evaluation of a comparison; get_function_value(): aggregate / scalar dispatch (shim world)
# --------------------------------------------------------------------------------------------------
def unit_evalshim(inj, scratch):
    frag_begin(inj)
    s = src('src/searcher.rs', scratch)
    it = s.fn('conforms', impl='Searcher')
    span = s.body_span(it)
    m1 = s.find_one(r'let\s+field_value\s*=\s*self\.get_column_expr_value\(', span, what='conforms: let field_value = self.get_column_expr_value(')
    m2 = s.find_one(r'result\s*=\s*match\s+field_value\.get_type\(\)\s*\{', span, what='conforms: result = match field_value.get_type() {')
    if not m1.start() < m2.start():
        raise AnchorLost('conforms: operand evaluation does not precede the type dispatch')
    # the statements may be preceded by other lets of the same block (e.g. a shared scratch map): start at the block start
    k = m1.start()
    depth = 0
    while k > span[0]:
        ch = s.mask[k]
        if ch == '}':
            depth += 1
        elif ch == '{':
            if depth == 0:
                break
            depth -= 1
        k -= 1
    ops = dedent(s.text[k + 1:m2.start()].strip())
    it2 = s.fn('get_function_value', impl='Searcher')
    fbody = dedent(s.text[it2['open']:it2['end']])
    text = f'''pub mod evalshim {{
{H('frag_evalshim_prelude.rs')}
impl Searcher {{
    // ---- verbatim: the statements of conforms() that evaluate the two operands of a comparison ----
    pub fn frag_operands(&mut self, entry: &DirEntry, file_info: &Option<FileInfo>, expr: &Expr) -> (Variant, Variant) {{
        {ops}
        (field_value, value)
    }}
    // ---- verbatim: body of Searcher::get_function_value ----
    pub fn get_function_value(&mut self, entry: Option<&DirEntry>, file_info: &Option<FileInfo>, file_map: &mut HashMap<String, String>,
                              buffer_data: Option<&Vec<HashMap<String, String>>>, column_expr: &Expr) -> Variant {fbody}
}}
{H('frag_evalshim.kani.rs')}
}}
'''
    inj.new_file(FRAG_FILE, text)
    r, d = frag_record('evalshim::Searcher::frag_operands', 'src/searcher.rs', 'fn conforms / all statements of the comparison block in front of `result = match field_value.get_type() {` (verbatim)',
                       ops, ops, ['Searcher / Expr / Variant / HashMap -> shim types; get_column_expr_value records which expression it evaluates and whether its cache map was empty'],
                       'get_column_expr_value itself (C15.minus.column), the typed arms (C02.cmp.*)')
    r2, d2 = frag_record('evalshim::Searcher::get_function_value', 'src/searcher.rs', 'impl Searcher / fn get_function_value (whole body, verbatim, on the shim world)',
                         fbody, fbody, ['function::get_value / function::get_aggregate_value -> recording stubs; Function -> shim with is_aggregate_function()'],
                         'the aggregate and scalar implementations themselves (C07.*, C16.*)')
    return dict(functions=[r, r2], dropped=[d, d2])


# --------------------------------------------------------------------------------------------------
# list_search_results(): per-root set-up; visit_dir(): prologue (C01) - verbatim on a shim world
# --------------------------------------------------------------------------------------------------
def unit_traversal(inj, scratch):
    frag_begin(inj)
    s = src('src/searcher.rs', scratch)
    it = s.fn('list_search_results', impl='Searcher')
    a, o, c = s.block_after(r'for\s+root\s+in\s+roots\s*\{', s.body_span(it), what='list_search_results: for root in roots {')
    loop_body = dedent(s.text[o:c + 1])
    it2 = s.fn('visit_dir', impl='Searcher')
    ms = s.find_all(r'let\s+canonical_path\s*=', s.body_span(it2))
    if not ms:
        raise AnchorLost('visit_dir: let canonical_path = .. not found')
    m = ms[0]
    prologue = dedent(s.text[it2['open'] + 1:m.start()].strip())
    # ok_to_visit_dir: the cfg(unix) variant (the first one in the file)
    oks = s.find_all(r'\bfn\s+ok_to_visit_dir\s*\(', s.impl_spans('Searcher')[0] if len(s.impl_spans('Searcher')) == 1 else None)
    if not oks:
        raise AnchorLost('ok_to_visit_dir not found')
    k = oks[0].start()
    ob_ = s.mask.index('{', k)
    okbody = dedent(s.text[ob_:s.match_close(ob_) + 1])
    text = f'''pub mod traversal {{
{H('frag_traversal_prelude.rs')}
impl Searcher {{
    // ---- verbatim: body of `for root in roots {{ .. }}` in Searcher::list_search_results ----
    pub fn frag_per_root(&mut self, root: Root) {loop_body}
    // ---- verbatim: the statements of Searcher::visit_dir in front of `let canonical_path = ..` ----
    pub fn frag_prologue(&mut self, dir: &Path, min_depth: u32, max_depth: u32, root_depth: u32) -> Result<(), u8> {{
        {prologue}
        Err(1)
    }}
    // ---- verbatim: body of Searcher::ok_to_visit_dir (unix) ----
    pub fn ok_to_visit_dir(&mut self, entry: &DirEntry, file_type: FileType) -> bool {okbody}
}}
{H('frag_traversal.kani.rs')}
}}
'''
    inj.new_file(FRAG_FILE, text)
    r, d = frag_record('traversal::Searcher::frag_per_root', 'src/searcher.rs', 'fn list_search_results / body of `for root in roots {..}` (verbatim, on a shim world)',
                       loop_body, loop_body, ['Searcher / Root / Path / Repository / metadata -> shim types; visit_dir records its arguments'], 'regexp roots expansion, the traversal itself')
    r2, d2 = frag_record('traversal::Searcher::frag_prologue', 'src/searcher.rs', 'fn visit_dir / all statements in front of `let canonical_path = ..` (verbatim); falling through is signalled by Err(1)',
                         prologue, prologue, ['visited_dirs -> shim set'], 'the rest of visit_dir')
    return dict(functions=[r, r2], dropped=[d, d2])


# --------------------------------------------------------------------------------------------------
# check_file() and the ordered-buffer output loop of list_search_results(): verbatim on a shim world
# --------------------------------------------------------------------------------------------------
def unit_rowprologue(inj, scratch):
    """check_file: the statements from the start of the body up to and including `self.found += 1;` (verbatim) on a shim world:
    the WHERE filter decides first, a rejected entry is neither counted nor turned into a row."""
    frag_begin(inj)
    s = src('src/searcher.rs', scratch)
    it = s.fn('check_file', impl='Searcher')
    m = s.find_one(r'self\.found\s*\+=\s*1\s*;', s.body_span(it), what='check_file: self.found += 1;')
    body = dedent(s.text[it['open'] + 1:m.end()].strip('\n'))
    text = ("""pub mod rowprologue {
pub struct DirEntry;
pub struct FileInfo;
pub struct Expr { pub id: u8 }
pub struct Fms { pub clears: u32 }
impl Fms { pub fn clear(&mut self) { self.clears += 1; } }
pub struct Query { pub expr: Option<Expr> }
pub struct Searcher { pub fms: Fms, pub query: &'static Query, pub found: u32, pub verdict: bool, pub conforms_calls: u32, pub asked_id: u8 }
pub mod io { pub type Result<T> = core::result::Result<T, ()>; }
impl Searcher {
    pub fn conforms(&mut self, _entry: &DirEntry, _file_info: &Option<FileInfo>, expr: &Expr) -> bool { self.conforms_calls += 1; self.asked_id = expr.id; self.verdict }
    // ---- verbatim: check_file from the start of its body up to and including `self.found += 1;` ----
    pub fn frag_check_file_prologue(&mut self, entry: &DirEntry, file_info: &Option<FileInfo>) -> io::Result<bool> {
""" + body + """
        Err(())   // sentinel: control reaches the construction of the row
    }
}
fn world(has_where: bool, verdict: bool, found: u32) -> Searcher {
    let q: &'static Query = Box::leak(Box::new(Query { expr: if has_where { Some(Expr { id: 7 }) } else { None } }));
    Searcher { fms: Fms { clears: 0 }, query: q, found, verdict, conforms_calls: 0, asked_id: 0 }
}
// C06 / C07: an entry is counted (found) and becomes a row exactly when there is no WHERE or the WHERE condition holds for it;
// the filter is evaluated once, before anything is counted or buffered
#[kani::proof]
fn c06_found_accounting() {
    let has_where: bool = kani::any();
    let verdict: bool = kani::any();
    let found: u32 = kani::any();
    kani::assume(found < u32::MAX);
    kani::cover!(has_where && !verdict);
    kani::cover!(has_where && verdict);
    kani::cover!(!has_where);
    let mut w = world(has_where, verdict, found);
    let r = w.frag_check_file_prologue(&DirEntry, &None);
    if has_where && !verdict {
        assert!(r == Ok(true), "OBL C06.found.accounting: a rejected entry ends check_file (search goes on)");
        assert!(w.found == found, "OBL C06.found.accounting: a rejected entry is not counted");
    } else {
        assert!(r == Err(()), "OBL C06.found.accounting: an accepted entry goes on to become a row");
        assert!(w.found == found + 1, "OBL C06.found.accounting: an accepted entry is counted exactly once");
    }
    assert!(w.conforms_calls == (has_where as u32), "OBL C06.found.accounting: the WHERE condition is evaluated once (never without WHERE)");
    assert!(!has_where || w.asked_id == 7, "OBL C06.found.accounting: it is the query's WHERE expression that is evaluated");
}
#[kani::proof]
fn canary_rowprologue_must_fail() {
    let mut w = world(true, false, 3);
    let _ = w.frag_check_file_prologue(&DirEntry, &None);
    assert!(w.found == 4, "CANARY must fail");
}
}
""")
    inj.new_file(FRAG_FILE, text)
    r, d = frag_record('rowprologue::Searcher::frag_check_file_prologue', 'src/searcher.rs', 'fn check_file / from the start of the body up to and including `self.found += 1;` (verbatim, as a method of a shim Searcher)',
                       body, body, ['Searcher / Query / Expr / fms -> shim types; conforms -> recording stand-in with a symbolic verdict'], 'conforms itself (C02 / C03), the construction and output of the row')
    return dict(functions=[r], dropped=[d], assumptions=['found < u32::MAX (machine arithmetic on the row counter)'])


def unit_datelike(inj, scratch):
    """lexer::looks_like_date: whole body verbatim; the regex and its captures are shims (group 1 = four digits, group 2 = two digits or absent)."""
    frag_begin(inj)
    s = src('src/lexer.rs', scratch)
    it = s.fn('looks_like_date')
    sig = re.sub(r'\s+', ' ', s.text[it['sig_start']:it['open']]).strip()
    if sig != 'fn looks_like_date(s: &str) -> bool':
        raise AnchorLost(f'looks_like_date: signature changed: {sig!r}')
    body = dedent(s.text[it['open']:it['end']])
    text = ("""pub mod datelike {
// ---- shim regex world: captures of DATE_ALIKE_REGEX `(\\d{4})-?(\\d{2})?` ----
#[derive(Clone, Copy)] pub struct SStr(pub i32);
pub trait FromNum { fn of(n: i32) -> Self; }
impl FromNum for i32 { fn of(n: i32) -> i32 { n } }
impl FromNum for u32 { fn of(n: i32) -> u32 { n as u32 } }
impl FromNum for i64 { fn of(n: i32) -> i64 { n as i64 } }
impl SStr { pub fn parse<T: FromNum>(&self) -> Result<T, ()> { Ok(T::of(self.0)) } }
#[derive(Clone, Copy)] pub struct SMatch(pub SStr);
impl SMatch { pub fn as_str(&self) -> &SStr { &self.0 } }
pub struct SCap { pub g: [Option<SStr>; 3] }
impl core::ops::Index<usize> for SCap { type Output = SStr; fn index(&self, i: usize) -> &SStr { self.g[i].as_ref().unwrap() } }
impl SCap { pub fn get(&self, i: usize) -> Option<SMatch> { if i < 3 { self.g[i].map(SMatch) } else { None } } }
pub struct SRegex;
pub static mut MATCHES: bool = false;
pub static mut YEAR: i32 = 0;
pub static mut MONTH: Option<i32> = None;
impl SRegex { pub fn captures(&self, _s: &str) -> Option<SCap> { unsafe { if MATCHES { Some(SCap { g: [Some(SStr(0)), Some(SStr(YEAR)), MONTH.map(SStr)] }) } else { None } } } }
pub static DATE_ALIKE_REGEX: SRegex = SRegex;
// ---- verbatim: fn looks_like_date ----
pub fn looks_like_date(s: &str) -> bool """ + body + """
// C13: a word is date-like when it starts with a year 1970..2999, optionally followed by a month 01..12 (December included)
#[kani::proof]
fn c13_datelike() {
    let matches: bool = kani::any();
    let year: i32 = kani::any(); let month: Option<i32> = kani::any();
    kani::assume(year >= 0 && year <= 9999);
    if let Some(m) = month { kani::assume(m >= 0 && m <= 99); }
    unsafe { MATCHES = matches; YEAR = year; MONTH = month; }
    kani::cover!(matches && month == Some(12));
    kani::cover!(matches && month.is_none());
    let expect = matches && year >= 1970 && year < 3000 && match month { Some(m) => m >= 1 && m <= 12, None => true };
    assert!(looks_like_date("w") == expect, "OBL C13.lexer.datelike");
}
#[kani::proof]
fn canary_datelike_must_fail() {
    unsafe { MATCHES = false; YEAR = 2024; MONTH = None; }
    assert!(looks_like_date("w"), "CANARY must fail");
}
}
""")
    inj.new_file(FRAG_FILE, text)
    r, d = frag_record('datelike::looks_like_date', 'src/lexer.rs', 'fn looks_like_date (whole body, verbatim, on a shim regex world)', body, body,
                       ['DATE_ALIKE_REGEX / Captures / Match -> shims: group 1 spells a number 0..9999, group 2 is absent or spells 0..99'], 'the regex match itself (T3)')
    return dict(functions=[r], dropped=[d], assumptions=['DATE_ALIKE_REGEX captures four digits as group 1 and two digits (or nothing) as group 2'])


def unit_rowcolumns(inj, scratch):
    """check_file: the statements between `let mut items .. = Vec::new();` and `self.results_writer.write_row(..)` (verbatim): the select-list loop,
    the grouping-key loop and the sort-key loop, on a shim world whose texts are one-byte tokens (no heap strings)."""
    frag_begin(inj)
    s = src('src/searcher.rs', scratch)
    it = s.fn('check_file', impl='Searcher')
    m1 = s.find_one(r'let\s+mut\s+items\s*:\s*Vec<\(String,\s*String\)>\s*=\s*Vec::new\(\)\s*;', s.body_span(it), what='check_file: let mut items: Vec<(String, String)> = Vec::new();')
    m2 = s.find_one(r'self\.results_writer\.write_row\(&mut\s+buf,\s*items\)', s.body_span(it), what='check_file: self.results_writer.write_row(&mut buf, items)')
    if not m1.end() < m2.start():
        raise AnchorLost('check_file: items is not declared in front of write_row')
    body = dedent(s.text[m1.end():m2.start()].strip('\n'))
    text = 'pub mod rowcolumns {\n' + H('frag_rowcolumns_prelude.rs') + """
impl Searcher {
    // ---- verbatim: check_file between `let mut items .. = Vec::new();` and `self.results_writer.write_row(&mut buf, items)` ----
    pub fn frag_columns(&mut self, entry: &DirEntry, file_info: &Option<FileInfo>, mut file_map: FileMap, mut criteria: Vec<Txt>) -> (Vec<(Txt, Txt)>, Vec<Txt>, FileMap) {
        let mut items: Vec<(Txt, Txt)> = Vec::new();
""" + body + """
        (items, criteria, file_map)
    }
}
""" + H('frag_rowcolumns.kani.rs') + '\n}\n'
    inj.new_file(FRAG_FILE, text)
    r, d = frag_record('rowcolumns::Searcher::frag_columns', 'src/searcher.rs', 'fn check_file / statements between `let mut items: Vec<(String, String)> = Vec::new();` and `self.results_writer.write_row(&mut buf, items)` (verbatim, as a method of a shim Searcher)',
                       body, body, ['String texts -> one-byte tokens Txt; HashMap -> small shim map; Expr / Variant -> shims; get_column_expr_value -> stand-in that records which expression it evaluates, returns 100 + id and caches it in the map'],
                       'get_column_expr_value / colorize themselves, the prologue (C06.found.accounting) and the output of the row (C09.row.protocol)')
    return dict(functions=[r], dropped=[d])


def unit_parsetop(inj, scratch):
    """Parser::parse: everything from `let fields = self.parse_fields()?;` to the end of the body (verbatim) on a shim Parser whose parse_* methods
    are scripted by the harness."""
    frag_begin(inj)
    s = src('src/parser.rs', scratch)
    it = s.fn('parse', impl='Parser')
    m1 = s.find_one(r'let\s+fields\s*=\s*self\.parse_fields\(\)\?\s*;', s.body_span(it), what='Parser::parse: let fields = self.parse_fields()?;')
    body = dedent(s.text[m1.start():it['close']].rstrip())
    text = ('pub mod parsetop {\n' + H('frag_parsetop_prelude.rs') + '\nimpl Parser {\n// ---- verbatim: Parser::parse from `let fields = self.parse_fields()?;` to the end of the body ----\n'
            'pub fn frag_assemble(&mut self, debug: bool) -> Result<Query, String> {\n' + body + '\n}\n}\n' + H('frag_parsetop.kani.rs') + '\n}\n')
    inj.new_file(FRAG_FILE, text)
    r, d = frag_record('parsetop::Parser::frag_assemble', 'src/parser.rs', 'fn Parser::parse / from `let fields = self.parse_fields()?;` to the end of the body (verbatim, as a method of a shim Parser)',
                       body, body, ['parse_fields .. parse_output_format, parse_roots, parse_root_options, there_are_remaining_lexems -> scripted stand-ins that log their call; Query / Root / Expr -> shim types with the same field names; dbg! -> no-op'],
                       'the clause parsers themselves (V: C10.parser.nopanic.*), the lexer loop in front (C10.lexer.*, C02.literal.empty)')
    return dict(functions=[r], dropped=[d])


def unit_aggrow(inj, scratch):
    """list_search_results: the `else { .. }` block of `if !self.query.grouping_fields.is_empty() { .. } else { .. }` (ungrouped aggregate output), verbatim."""
    frag_begin(inj)
    s = src('src/searcher.rs', scratch)
    it = s.fn('list_search_results', impl='Searcher')
    g = s.block_after(r'if\s+!self\.query\.grouping_fields\.is_empty\(\)', s.body_span(it), what='list_search_results: if !self.query.grouping_fields.is_empty()')
    k = g[2] + 1
    m = re.match(r'\s*else\s*\{', s.mask[k:])
    if not m:
        raise AnchorLost('list_search_results: the grouped branch is not followed by `else {`')
    o = k + m.end() - 1
    body = dedent(s.text[o:s.match_close(o) + 1])
    text = ('pub mod aggrow {\n' + H('frag_aggrow_prelude.rs') + '\nimpl Searcher {\n// ---- verbatim: the ungrouped branch (`else {..}`) of the aggregate output in list_search_results ----\n'
            'pub fn frag_aggregate_row(&mut self) -> io::Result<()> {\n' + body + '\nOk(())\n}\n}\n' + H('frag_aggrow.kani.rs') + '\n}\n')
    inj.new_file(FRAG_FILE, text)
    r, d = frag_record('aggrow::Searcher::frag_aggregate_row', 'src/searcher.rs', 'fn list_search_results / the `else {..}` block that follows `if !self.query.grouping_fields.is_empty() {..}` (verbatim, as a method of a shim Searcher)',
                       body, body, ['texts -> one-byte tokens; format!("{}", v) -> the text of v; write!(stdout(), "{}", String::from(buf)) -> recording stand-in; get_column_expr_value -> stand-in recording its entry / partition arguments'],
                       'the aggregate evaluation itself (C07.sum / mean / variance), the grouped branch, the row formatters (C09)')
    return dict(functions=[r], dropped=[d])


def unit_parseroots(inj, scratch):
    """Parser::parse_roots: whole function (signature included) verbatim on a shim Parser with token texts; parse_root_options is a stand-in."""
    frag_begin(inj)
    s = src('src/parser.rs', scratch)
    it = s.fn('parse_roots', impl='Parser')
    whole = dedent(s.text[it['sig_start']:it['end']])
    text = ('pub mod parseroots {\n' + H('frag_parseroots_prelude.rs') + '\nimpl Parser {\n// ---- verbatim: fn parse_roots ----\npub ' + whole + '\n}\n'
            + H('frag_parseroots.kani.rs') + '\n}\n')
    inj.new_file(FRAG_FILE, text)
    r, d = frag_record('parseroots::Parser::parse_roots', 'src/parser.rs', 'impl Parser / fn parse_roots (whole function incl. signature, verbatim, as a method of a shim Parser)', whole, whole,
                       ['token texts -> one-byte ids (String / Lexem shims with the same variant and method names); parse_root_options -> stand-in consuming the run of option tokens; UserDirs -> none known; PathBuf -> dummy'],
                       'parse_root_options itself (V: C11.rootopt), home-directory expansion of `~`')
    return dict(functions=[r], dropped=[d])


def unit_topn(inj, scratch):
    """util/top_n.rs: struct TopN and its impl block verbatim; std BTreeMap replaced by a sorted-vector stand-in with the same method names."""
    frag_begin(inj)
    s = src('src/util/top_n.rs', scratch)
    st = s.item('struct', 'TopN')
    im = s.item('impl', 'TopN')
    # the file's own `use` lines (other than the BTreeMap import, which the stand-in replaces)
    uses = [m.group(0) for m in re.finditer(r'^use\s+[^;]+;', s.mask[:st['start']], flags=re.M)]
    uses = [s.text[m.start():m.end()] for m in re.finditer(r'^use\s+[^;]+;', s.mask[:st['start']], flags=re.M)]
    uses = [u for u in uses if 'BTreeMap' not in u]
    body = '\n'.join(uses) + '\n' + s.text[st['start']:st['end']] + '\n\n' + s.text[im['start']:im['end']]
    # the stand-ins named Vec / BTreeMap live in an inner module, so that the harnesses (and a replay test Kani generates next to them) see the std types
    text = 'pub mod topn {\npub mod world {\n' + H('frag_topn_prelude.rs') + '\n// ---- verbatim: struct TopN and impl TopN from src/util/top_n.rs ----\n' + body + '\n}\nuse self::world::TopN;\n' + H('frag_topn.kani.rs') + '\n}\n'
    inj.new_file(FRAG_FILE, text)
    r, d = frag_record('topn::TopN', 'src/util/top_n.rs', 'struct TopN + impl<K: Ord, V> TopN<K, V> (whole items, verbatim)', body, body,
                       ['std::collections::BTreeMap and Vec -> fixed-capacity array-backed stand-ins with the std method names (new, entry().or_default(), iter(), remove, insert, values, last_key_value, pop_last; push, pop, is_empty, iter, collect)'],
                       'the real B-tree (T2); Criteria as key type (C05.criteria.*)')
    return dict(functions=[r], dropped=[d], assumptions=['std BTreeMap behaves as a finite map ordered by key (sorted-vector stand-in)'])


def unit_grouprows(inj, scratch):
    """list_search_results: the block of `if !self.query.grouping_fields.is_empty() {..}` (grouped aggregate output), verbatim, together with the
    whole partition_output_buffer, on a heap-free shim world."""
    frag_begin(inj)
    s = src('src/searcher.rs', scratch)
    it = s.fn('list_search_results', impl='Searcher')
    g = s.block_after(r'if\s+!self\.query\.grouping_fields\.is_empty\(\)', s.body_span(it), what='list_search_results: if !self.query.grouping_fields.is_empty()')
    body = dedent(s.text[g[1]:g[2] + 1])
    pit = s.fn('partition_output_buffer', impl='Searcher')
    whole = dedent(s.text[pit['sig_start']:pit['end']])
    text = ('pub mod grouprows {\npub mod world {\n' + H('frag_grouprows_prelude.rs') + "\nimpl<'a> Searcher<'a> {\n// ---- verbatim: fn partition_output_buffer ----\npub " + whole
            + '\n// ---- verbatim: the block of `if !self.query.grouping_fields.is_empty()` in list_search_results ----\npub fn frag_grouped_output(&mut self) ' + body + '\n}\n}\n'
            + H('frag_grouprows.kani.rs') + '\n}\n')
    inj.new_file(FRAG_FILE, text)
    r, d = frag_record('grouprows::Searcher::frag_grouped_output', 'src/searcher.rs', 'fn list_search_results / the block of `if !self.query.grouping_fields.is_empty() {..}` (verbatim) + fn partition_output_buffer (verbatim), as methods of a shim Searcher',
                       body, body, ['String -> one-byte token (its number is the byte); HashMap, Vec, Rc -> heap-free stand-ins with the std method names; format!("{}", v) -> the text of v; write!(stdout(), ..) -> no-op; '
                                    'get_column_expr_value -> stand-in: the key column reads the per-group map, COUNT(*) counts the rows of the partition it is handed; ResultsWriter -> recorder'],
                       'the aggregate implementations (C07.*), hashing, the row formatters (C09)')
    return dict(functions=[r], dropped=[d], assumptions=['std HashMap / Vec::sort_by (stable) / Rc behave as their heap-free stand-ins'])


def unit_walk(inj, scratch):
    """Searcher::visit_dir: the WHOLE function (signature included) verbatim on a scripted, heap-free file-system world."""
    frag_begin(inj)
    s = src('src/searcher.rs', scratch)
    it = s.fn('visit_dir', impl='Searcher')
    whole = dedent(s.text[it['sig_start']:it['end']])
    gen = whole
    ren = []
    for a_, b_ in [('crate::util::canonical_path', 'util_shim::canonical_path'), ('crate::util::calc_depth', 'util_shim::calc_depth')]:
        if a_ in gen:
            gen = gen.replace(a_, b_); ren.append(a_ + ' -> ' + b_)
    # ok_to_visit_dir (the unix variant: the first definition in the impl block), verbatim
    oit = s.fn('ok_to_visit_dir', impl='Searcher') if len(s.find_all(r'\bfn\s+ok_to_visit_dir\b')) == 1 else None
    if oit is None:
        ms = s.find_all(r'\bfn\s+ok_to_visit_dir\b')
        if not ms:
            raise AnchorLost('ok_to_visit_dir not found')
        o = s.mask.index('{', ms[0].end())
        okfn = dedent(s.text[ms[0].start():s.match_close(o) + 1])
    else:
        okfn = dedent(s.text[oit['sig_start']:oit['end']])
    def module(name, fs_file, harness_file):
        tables, paths = H(fs_file).split('/*--*/')
        prelude = H('frag_walk_prelude.rs').replace('/*FS_TABLES*/', tables).replace('/*FS_PATHS*/', paths.strip())
        return ('pub mod ' + name + ' {\npub mod world {\n' + prelude + '\nimpl Searcher {\n// ---- verbatim: fn visit_dir ----\npub ' + gen
                + '\n// ---- verbatim: fn ok_to_visit_dir (unix) ----\npub ' + okfn + '\n}\n}\n' + H(harness_file) + '\n}\n')
    # two scripted file systems: six plain nodes (depth windows, order, limits), 13 nodes with symlinks (C18)
    text = module('walk', 'frag_walk_fs6.rs', 'frag_walk.kani.rs') + module('walk18', 'frag_walk_fs10.rs', 'frag_walk18.kani.rs')
    inj.new_file(FRAG_FILE, text)
    r, d = frag_record('walk::Searcher::visit_dir', 'src/searcher.rs', 'impl Searcher / fn visit_dir (whole function incl. signature, verbatim, as a method of a shim Searcher)', whole, gen,
                       ren + ['Path / PathBuf / DirEntry / FileType / fs::read_dir / read_link / File / zip / git2::Repository / ignore filters / HashSet / VecDeque -> a scripted six-node file system and heap-free stand-ins with the same method names; '
                              'check_file -> recorder that counts in `found`; ok_to_visit_dir is copied verbatim as well (entry.ino() = node id)'],
                       'the OS (readdir order, errors, symlinks), archives, ignore files; check_file (C06.found.accounting, C07.columns.evaluated) and ok_to_visit_dir (C01.ok_to_visit) themselves')
    return dict(functions=[r], dropped=[d], assumptions=['two scripted file systems: six nodes (three levels, one two-member zip archive) for windows / order / limits; 13 nodes adding a link to an ancestor with an absolute target, a link with a relative target to a directory outside and less deep than the root, a link to the root itself, a link to a file and a dangling link; no ignore rules, no I/O errors'])


def unit_rowflow(inj, scratch):
    frag_begin(inj)
    s = src('src/searcher.rs', scratch)
    it2 = s.fn('list_search_results', impl='Searcher')
    # the block `else if self.is_buffered() { .. }` that follows the aggregate branch and precedes write_footer
    foot = s.find_one(r'self\.results_writer\.write_footer\(', s.body_span(it2), what='list_search_results: write_footer')
    blocks = [m for m in s.find_all(r'else\s+if\s+self\.is_buffered\(\)\s*\{', (it2['open'], foot.start()))]
    if len(blocks) != 1:
        raise AnchorLost(f'list_search_results: expected one `else if self.is_buffered() {{` output block, found {len(blocks)}')
    o = blocks[0].end() - 1
    obody = dedent(s.text[o:s.match_close(o) + 1])
    text = f'''pub mod rowflow {{
{H('frag_rowflow_prelude.rs')}
impl Searcher {{
    // ---- verbatim: the `else if self.is_buffered() {{ .. }}` output block of Searcher::list_search_results ----
    pub fn frag_ordered_output(&mut self) -> io::Result<()> {{
        {obody}
        Ok(())
    }}
}}
{H('frag_rowflow.kani.rs')}
}}
'''
    inj.new_file(FRAG_FILE, text)
    r2, d2 = frag_record('rowflow::Searcher::frag_ordered_output', 'src/searcher.rs', 'fn list_search_results / the `else if self.is_buffered() {..}` block in front of write_footer (verbatim)', obody, obody,
                         ['output_buffer.values() -> the buffered rows in order; write! and std::io::stdout() -> recording stand-ins'], 'TopN ordering itself, the aggregate / grouped output branches')
    return dict(functions=[r2], dropped=[d2])


# --------------------------------------------------------------------------------------------------
# format_filesize(): specifier flags and unit -> (fixed unit, base, precision)  (C14, rendering side)
# --------------------------------------------------------------------------------------------------
def unit_sizefmt(inj, scratch):
    frag_begin(inj)
    s = src('src/util/mod.rs', scratch)
    it = s.fn('format_filesize')
    span = s.body_span(it)
    m1 = s.find_one(r'let\s+fixed_at\s*;', span, what='format_filesize: let fixed_at;')
    m2 = s.find_one(r'let\s+format_options\s*=', span, what='format_filesize: let format_options =')
    if not m1.start() < m2.start():
        raise AnchorLost('format_filesize: option table does not precede format_options')
    t = dedent(s.text[m1.start():m2.start()].rstrip())
    tail = re.sub(r'\s+', '', s.mask[m2.start():it['close']])
    if not re.search(r'humansize::FormatSizeOptions::from\(format\)\.fixed_at\(fixed_at\)\.decimal_places\(zeroesasusize\)\.space_after_value\(space\)', tail):
        raise AnchorLost('format_filesize: format_options is not built from (format, fixed_at, zeroes, space)')
    # ---- tail: everything after the statement `let format_options = ..;` (rendering call and unit text replacements)
    semi = s.mask.index(';', m2.start())
    tail_text = dedent(s.text[semi + 1:it['close']].strip('\n'))
    # module-level constants of util/mod.rs that the two fragments name (e.g. a unit table) travel with them, verbatim
    consts, const_names = [], []
    for name in sorted(set(re.findall(r'\b[A-Z][A-Z0-9_]{2,}\b', t + tail_text)) - {'BINARY', 'DECIMAL', 'WINDOWS', 'MAX', 'MIN'}):
        ms = s.find_all(r'^(?:pub(?:\([a-z]+\))?\s+)?const\s+' + name + r'\s*:', flags=re.M)
        if len(ms) == 1:
            k, depth = ms[0].end(), 0
            while k < len(s.mask) and not (s.mask[k] == ';' and depth == 0):
                depth += s.mask[k] in '([{'
                depth -= s.mask[k] in ')]}'
                k += 1
            consts.append(s.text[ms[0].start():k + 1]); const_names.append(name)
    const_text = '\n'.join(consts)
    text = f'''pub mod sizefmt {{
pub mod humansize {{
    #[derive(Clone, Copy, PartialEq, Debug)] pub enum FixedAt {{ Base, Kilo, Mega, Giga, Tera, Peta, Exa }}
    #[derive(Clone, Copy, PartialEq, Debug)] pub enum Base {{ Binary, Decimal, Windows }}
    pub const BINARY: Base = Base::Binary;
    pub const DECIMAL: Base = Base::Decimal;
    pub const WINDOWS: Base = Base::Windows;
    pub struct Opts;
    pub static mut RENDERED: &str = "";
    // stands for the humansize crate: answers with the text the harness states the crate renders
    pub fn format_size(_size: u64, _o: Opts) -> String {{ unsafe {{ String::from(RENDERED) }} }}
}}
// ---- verbatim: format_filesize after the statement `let format_options = ..;` ----
pub fn frag_size_text(size: u64, format_options: humansize::Opts, short_units: bool) -> String {{
    {tail_text}
}}
// ---- verbatim: module-level constants named by the fragments ----
{const_text}
pub fn error_exit(_a: &str, _b: &str) -> ! {{ kani::assume(false); loop {{}} }}
// ---- verbatim: format_filesize from `let fixed_at;` up to (not including) `let format_options = ..` ----
pub fn frag_size_options(mut modifier: String, mut zeroes: i32) -> (Option<humansize::FixedAt>, humansize::Base, i32) {{
    {t}
    (fixed_at, format, zeroes)
}}
{H('frag_sizefmt.kani.rs')}
}}
'''
    inj.new_file(FRAG_FILE, text)
    r, d = frag_record('frag_size_options', 'src/util/mod.rs', 'fn format_filesize / statements from `let fixed_at;` up to `let format_options = ..` (verbatim); the use of (format, fixed_at, zeroes, space) in format_options is checked by shape',
                       t, t, ['humansize::{FixedAt, BINARY, DECIMAL, WINDOWS} -> shim enums'], 'the specifier regex (precision / space / unit capture), humansize rendering, the kB/short-unit text replacements')
    r2, d2 = frag_record('frag_size_text', 'src/util/mod.rs', 'fn format_filesize / everything after the statement `let format_options = ..;` (verbatim)', tail_text, tail_text,
                         ['humansize::format_size -> stand-in answering with a harness-stated rendering'] + ([f'module-level constants carried along verbatim: {", ".join(const_names)}'] if const_names else []), 'humansize rendering itself (T3)')
    return dict(functions=[r, r2], dropped=[d, d2], assumptions=['humansize: BINARY = 1024-based with KiB.. units, DECIMAL = 1000-based with kB.., WINDOWS = 1024-based with kB.. units; FixedAt fixes the unit'])


def unit_variance(inj, scratch):
    """get_variance, get_mean, get_buffer_sum: whole bodies verbatim on a shim row world; the `n` statements of the four
    VAR / STDDEV arms of get_aggregate_value as fragments."""
    frag_begin(inj)
    s = src('src/function.rs', scratch)
    fns, recs, dropped = [], [], []
    for name in ['get_variance', 'get_mean', 'get_buffer_sum']:
        it = s.fn(name)
        sig = re.sub(r'\s+', ' ', s.text[it['sig_start']:it['open']]).strip()
        sig2 = sig.replace('&Vec<HashMap<String, String>>', '&Vec<Row>').replace('&String', '&Key')
        if 'HashMap' in sig2 or 'String' in sig2 or sig2 == sig:
            raise AnchorLost(f'{name}: signature changed shape: {sig!r}')
        body = s.text[it['open']:it['end']]
        fns.append('pub ' + sig2 + ' ' + body if not sig2.startswith('pub') else sig2 + ' ' + body)
        r, d = frag_record('variance::' + name, 'src/function.rs', f'fn {name} (whole body, verbatim, on the shim row world)', body, body,
                           ['Vec<HashMap<String, String>> -> Vec<Row>, String key -> Key, String cell -> Cell (numeral or text) with parse::<T>()'],
                           'HashMap lookup and str::parse (std)')
        recs.append(r); dropped.append(d)
    ag = s.fn('get_aggregate_value')
    nfr = []
    for variant, fname in [('VarPop', 'frag_n_varpop'), ('VarSamp', 'frag_n_varsamp'), ('StdDevPop', 'frag_n_stddevpop'), ('StdDevSamp', 'frag_n_stddevsamp')]:
        arm = s.arm(r'Some\(Function::' + variant + r'\)', s.body_span(ag))
        a0, a1 = arm[1] + 1, arm[2] - 1
        m1 = s.find_one(r'if\s+raw_output_buffer\.is_empty\(\)\s*\{[^}]*\}', (a0, a1), what=f'{variant}: empty-buffer guard')
        m2 = s.find_one(r'let\s+variance\s*=\s*get_variance\(raw_output_buffer,\s*&buffer_key,\s*n\)\s*;', (a0, a1), what=f'{variant}: get_variance(raw_output_buffer, &buffer_key, n)')
        stm = dedent(s.text[m1.end():m2.start()].strip())
        gen = stm.replace('raw_output_buffer.len()', 'len')
        if 'raw_output_buffer' in gen or 'len' not in gen:
            raise AnchorLost(f'{variant}: the statements computing n changed shape: {stm!r}')
        nfr.append(f'pub fn {fname}(len: usize) -> usize {{ {gen}\n n }}')
        r, d = frag_record('variance::' + fname, 'src/function.rs', f'fn get_aggregate_value / arm Some(Function::{variant}) / statements between the empty-buffer guard and the call get_variance(raw_output_buffer, &buffer_key, n)',
                           stm, gen, ['raw_output_buffer.len() -> len'], 'the empty-buffer guard, sqrt, to_string')
        recs.append(r); dropped.append(d)
    text = 'pub mod variance {\n' + H('frag_variance_prelude.rs') + '\n// ---- verbatim bodies ----\n' + '\n'.join(fns) + '\n// ---- fragments ----\n' + '\n'.join(nfr) + '\n' + H('frag_variance.kani.rs') + '\n}\n'
    inj.new_file(FRAG_FILE, text)
    return dict(functions=recs, dropped=dropped, assumptions=['f64::powi(x, 2) == x * x (stubbed: CBMC does not model the powi intrinsic)',
                                                              'a numeral cell denotes the same number under parse::<usize>() and parse::<f64>()'])


def unit_linecount(inj, scratch):
    """util::get_line_count: whole function verbatim on a scripted file (open failure, read failure at any chunk)."""
    frag_begin(inj)
    s = src('src/util/mod.rs', scratch)
    it = s.fn('get_line_count')
    whole = s.text[it['sig_start']:it['end']]
    sig = re.sub(r'\s+', ' ', s.text[it['sig_start']:it['open']]).strip()
    if sig != 'pub fn get_line_count(entry: &DirEntry) -> Option<usize>':
        raise AnchorLost(f'get_line_count: signature changed shape: {sig!r}')
    it2 = s.fn('is_shebang')
    whole2 = s.text[it2['sig_start']:it2['end']]
    sig2 = re.sub(r'\s+', ' ', s.text[it2['sig_start']:it2['open']]).strip()
    if sig2 != 'pub fn is_shebang(path: &PathBuf) -> bool':
        raise AnchorLost(f'is_shebang: signature changed shape: {sig2!r}')
    text = 'pub mod linecount {\n' + H('frag_linecount_prelude.rs') + '\n// ---- verbatim ----\n' + whole + '\n' + whole2 + '\n' + H('frag_linecount.kani.rs') + '\n}\n'
    inj.new_file(FRAG_FILE, text)
    r, d = frag_record('linecount::get_line_count', 'src/util/mod.rs', 'fn get_line_count (whole function, verbatim, on a scripted file)', whole, whole,
                       ['DirEntry / File / BufReader / bytecount::count -> scripted stand-ins with the same method names'], 'the operating system: open, read')
    r2, d2 = frag_record('linecount::is_shebang', 'src/util/mod.rs', 'fn is_shebang (whole function, verbatim, on a scripted file)', whole2, whole2,
                         ['PathBuf / File / BufReader::read_exact -> scripted stand-ins with the same method names'], 'the operating system: open, read')
    return dict(functions=[r, r2], dropped=[d, d2], assumptions=['the scripted reader stands for std::io::BufReader<File>: fill_buf yields the unread rest of the current chunk, an empty slice only at the end of the file, or an error; consume(n) advances by n'])


def unit_zipdate(inj, scratch):
    """util::datetime::to_local_datetime: whole function verbatim on a calendar shim with a scripted clock."""
    frag_begin(inj)
    s = src('src/util/datetime.rs', scratch)
    it = s.fn('to_local_datetime')
    whole = s.text[it['sig_start']:it['end']]
    sig = re.sub(r'\s+', ' ', s.text[it['sig_start']:it['open']]).strip()
    if sig != 'pub fn to_local_datetime(dt: &zip::DateTime) -> NaiveDateTime':
        raise AnchorLost(f'to_local_datetime: signature changed shape: {sig!r}')
    text = 'pub mod zipdate {\n' + H('frag_zipdate_prelude.rs') + '\n// ---- verbatim ----\n' + whole + '\n' + H('frag_zipdate.kani.rs') + '\n}\n'
    inj.new_file(FRAG_FILE, text)
    r, d = frag_record('zipdate::to_local_datetime', 'src/util/datetime.rs', 'fn to_local_datetime (whole function, verbatim, on a calendar shim)', whole, whole,
                       ['chrono NaiveDate / NaiveDateTime / Local and zip::DateTime -> stand-ins with the same method names'], 'chrono itself, the system clock and time zone')
    return dict(functions=[r], dropped=[d], assumptions=['the calendar shim has the semantics chrono documents: from_ymd_opt / and_hms_opt / with_year / with_month / with_day / with_hour / with_minute / with_second return None exactly when the resulting date or time of day does not exist (proleptic Gregorian calendar; leap seconds not modelled); NaiveDateTime::default() is 1970-01-01 00:00:00'])


def unit_fms(inj, scratch):
    rel = 'src/searcher.rs'
    s = src(rel, scratch)
    inj.append(rel, H('fms.kani.rs'))
    return dict(functions=[fn_record(s, 'clear', 'K', impl='FileMetadataState', how='whole real function; postcondition asserted in an appended harness over every combination of the six flags')], dropped=[])


def unit_wbuf(inj, scratch):
    rel = 'src/util/wbuf.rs'
    s = src(rel, scratch)
    inj.append(rel, H('wbuf.kani.rs'))
    impl = s.item('impl', r'Write\s+for\s+WritableBuffer')
    it = s.item('fn', 'write', (impl['open'], impl['close']))
    return dict(functions=[{'fn': 'WritableBuffer::write / From<WritableBuffer> for String', 'file': rel, 'engine': 'K', 'how': 'whole real functions; postcondition asserted in an appended harness over symbolic chunks',
                            'sha256_16': sha(s.text_of(it))}], dropped=[])


def unit_outputformat(inj, scratch):
    rel = 'src/query.rs'
    s = src(rel, scratch)
    inj.append(rel, H('query.kani.rs'))
    return dict(functions=[fn_record(s, 'from', 'K', impl='OutputFormat', how='whole real function; postcondition asserted over every documented format name in three letter cases in an appended harness')], dropped=[])


def unit_functionnames(inj, scratch):
    rel = 'src/function.rs'
    s = src(rel, scratch)
    # every variant of `enum Function` (the build has the default features on linux, so cfg-gated variants exist)
    it_e = s.item('enum', 'Function')
    variants = [m.group(1) for m in (re.match(r'\s*(\w+),?\s*$', ln) for ln in s.mask[it_e['open'] + 1:it_e['close']].split('\n')) if m]
    if len(variants) < 40:
        raise AnchorLost('enum Function: could not enumerate variants')
    arms = ' '.join(f'{i} => Function::{v},' for i, v in enumerate(variants[:-1]))
    gen = (f'    pub const N_FUNCTIONS: u8 = {len(variants)};\n'
           f'    pub fn function_at(k: u8) -> Function {{ match k {{ {arms} _ => Function::{variants[-1]} }} }}\n')
    inj.append(rel, H('functionnames.kani.rs').replace('/*GENERATED_FUNCTION_TABLE*/', gen))
    impl = s.item('impl', r'FromStr\s+for\s+Function')
    it = s.item('fn', 'from_str', (impl['open'], impl['close']))
    return dict(functions=[{'fn': 'Function::from_str', 'file': rel, 'engine': 'K', 'how': 'whole real function; postcondition asserted over every documented alias in an appended harness',
                            'sha256_16': sha(s.text_of(it))},
                           fn_record(s, 'is_argumentless_function', 'K', impl='Function', how='whole real function; postcondition asserted in an appended harness over every enum variant (table generated from the enum on every run)')], dropped=[])
