#!/usr/bin/env python3
"""Units: pieces of injected verification text. Each unit's build(inj, repo) adds appended harness
modules / contract attributes / generated fragment functions to the Injector and returns a dict
describing what is under contract and what the extraction dropped. A unit raises AnchorLost when the
real code no longer has the shape its anchors expect (-> exit 2 for the obligations that need it)."""
import os
import re
from extract import Source, AnchorLost, sha, dedent, replace_exact
from vlib import VERIF, REPO


def H(name):
    return open(os.path.join(VERIF, 'harness', name)).read()


def src(rel, scratch):
    return Source(os.path.join(scratch, rel))


def fn_record(s, name, engine, impl=None, how='whole function, annotated in place on the scratch copy'):
    it = s.fn(name, impl=impl)
    return {'fn': (impl + '::' if impl else '') + name, 'file': os.path.relpath(s.path).split('crate/')[-1],
            'engine': engine, 'how': how, 'sha256_16': sha(s.text_of(it))}


# --------------------------------------------------------------------------------------------------
# mode.rs : contracts in place (Engine K)
# --------------------------------------------------------------------------------------------------
MODE_BITS = [('mode_user_read', '0o400'), ('mode_user_write', '0o200'), ('mode_user_exec', '0o100'),
             ('mode_group_read', '0o040'), ('mode_group_write', '0o020'), ('mode_group_exec', '0o010'),
             ('mode_other_read', '0o004'), ('mode_other_write', '0o002'), ('mode_other_exec', '0o001'),
             ('mode_suid', '0o4000'), ('mode_sgid', '0o2000'), ('mode_sticky', '0o1000')]
MODE_ALL = [('mode_user_all', '0o700'), ('mode_group_all', '0o070'), ('mode_other_all', '0o007')]
MODE_TYPES = [('mode_is_pipe', 'T_FIFO'), ('mode_is_char_device', 'T_CHR'), ('mode_is_block_device', 'T_BLK'),
              ('mode_is_socket', 'T_SOCK'), ('mode_is_directory', 'T_DIR'), ('mode_is_link', 'T_LNK')]


def unit_mode(inj, scratch):
    rel = 'src/mode.rs'
    s = src(rel, scratch)
    fns = []
    for f, b in MODE_BITS:
        inj.contract(rel, f, [f'kani::ensures(|r: &bool| *r == verif_kani::bit(mode, {b}))'])
        fns.append(fn_record(s, f, 'K'))
    for f, b in MODE_ALL:
        inj.contract(rel, f, [f'kani::ensures(|r: &bool| *r == ((mode & {b}) == {b}))'])
        fns.append(fn_record(s, f, 'K'))
    for f, t in MODE_TYPES:
        inj.contract(rel, f, ['kani::requires(verif_kani::valid_type(mode))',
                              f'kani::ensures(|r: &bool| *r == verif_kani::is_type(mode, verif_kani::{t}))'])
        fns.append(fn_record(s, f, 'K'))
    for w in ['get_mode_unix', 'format_mode', 'user_read', 'user_write', 'user_exec', 'user_all', 'group_read', 'group_write',
              'group_exec', 'group_all', 'other_read', 'other_write', 'other_exec', 'other_all', 'suid_bit_set',
              'sgid_bit_set', 'is_pipe', 'is_char_device', 'is_block_device', 'is_socket']:
        fns.append(fn_record(s, w, 'K', how='whole function; postcondition asserted in an appended harness'))
    inj.append(rel, H('mode.kani.rs'))
    inj.prepend('src/main.rs', '#![cfg_attr(kani, recursion_limit = "512")]')
    return dict(functions=fns, dropped=[])
