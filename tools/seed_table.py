#!/usr/bin/env python3
"""Summarise seeded/*/last_run.json (written by tools/seed_matrix.py): one line per seed, and fill the W3NOW_<id> placeholders of DESIGN.md when called with --fill."""
import json, os, re, sys
VERIF = os.path.dirname(os.path.dirname(os.path.abspath(__file__)))
rows = {}
for sid in sorted(os.listdir(os.path.join(VERIF, 'seeded'))):
    p = os.path.join(VERIF, 'seeded', sid, 'last_run.json')
    if not os.path.exists(p):
        rows[sid] = ('?', 'not run'); continue
    d = json.load(open(p))
    r = d.get(sid.split('_')[0]) or list(d.values())[0]
    viol = [re.search(r'obligation=(\S+)', l).group(1) for l in r['lines'] if l.startswith('VIOLATION') and 'obligation=' in l]
    und = [l for l in r['lines'] if l.startswith('UNDECIDED')]
    if r['rc'] == 1:
        txt = '**caught** ' + ', '.join('`' + v + '`' for v in viol[:3]) + (' ...' if len(viol) > 3 else '')
    elif r['rc'] == 2:
        m = re.search(r'obligation=(\S+?):', und[0]) if und else None
        txt = 'exit 2 (' + (f'`{m.group(1)}`' if m else 'build') + (f' and {len(und) - 1} more' if len(und) > 1 else '') + ' undecided)'
    elif r['rc'] == 0:
        txt = 'missed'
    else:
        txt = 'patch does not apply'
    rows[sid] = (r['rc'], txt)
c = {}
for sid, (rc, txt) in rows.items():
    c[rc] = c.get(rc, 0) + 1
    print(f'{sid}\t{rc}\t{txt}')
print('TOTAL', c)
for wave, pred in [('wave1', lambda k: k in (1, 2)), ('wave2', lambda k: k in (3, 4)), ('wave3', lambda k: k in (5, 6))]:
    cc = {}
    for sid, (rc, txt) in rows.items():
        if pred(int(sid.split('_')[1])): cc[rc] = cc.get(rc, 0) + 1
    print(wave, cc)
if '--fill' in sys.argv:
    p = os.path.join(VERIF, 'DESIGN.md'); t = open(p).read()
    for sid, (rc, txt) in rows.items():
        t = t.replace('W3NOW_' + sid + ' |', txt + ' |').replace('W4NOW_' + sid + ' |', txt + ' |')
    open(p, 'w').write(t)
