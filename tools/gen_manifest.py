#!/usr/bin/env python3
"""Regenerate MANIFEST.json from the per-property tables below (kept here so it is always valid)."""
import json, os, sys
HERE = os.path.dirname(os.path.abspath(__file__))
VERIF = os.path.dirname(HERE)
sys.path.insert(0, HERE)
from manifest_data import CLAIMED, NOT_APPLICABLE

BASELINE_OFF = "cd /repo && cargo test --workspace --no-fail-fast --offline"
checks = []
for pid, d in sorted(CLAIMED.items()):
    checks.append({
        "property_id": pid,
        "quick_cmd": f"python3 tools/run_check.py {pid} --tier quick",
        "thorough_cmd": f"python3 tools/run_check.py {pid} --tier thorough",
        "evidence_file": f"/verif/evidence/{pid}.json",
        "replay_cmd_template": "python3 tools/replay.py {path}",
        "engine": d["engine"],
        "level_claimed": {"category": "proof", "text": d["text"], "design_ref": d["ref"]},
        "level_note": d["note"],
        "technique": d["technique"],
    })
m = {
    "version": 1,
    "setup_cmd": "python3 tools/setup.py",
    "hooks": {
        "guard": "cfg(kani)",
        "enable": "no hook is committed to /repo: every check copies /repo's working tree to a scratch directory and "
                  "injects its contracts/harnesses there as #[cfg(kani)] / #[cfg_attr(kani, ...)] text (insert-only, "
                  "verified by diff); Verus works on functions extracted from the same copy",
        "baseline_off_cmd": BASELINE_OFF,
        "source_commits": [],
        "add_only": True,
    },
    "engines": [
        {"name": "K", "path": "tools/run_check.py + harness/*.kani.rs", "kind_free_text":
            "Kani 0.68 / CBMC 6.11 function contracts and full-domain harnesses on a scratch copy of the whole real crate"},
        {"name": "F", "path": "tools/units.py (fragment extraction) + tools/extract.py", "kind_free_text":
            "decision-core fragments of conforms/visit_dir/parse_cond/... copied verbatim on every run into generated "
            "functions and proved by Kani"},
        {"name": "V", "path": "tools/verus_engine.py + harness/verus_*.rs", "kind_free_text":
            "Verus 0.2026.09.13: real parser functions extracted verbatim on every run with spliced requires/ensures/invariants"},
    ],
    "checks": checks,
    "not_applicable": [{"property_id": k, "reason": v} for k, v in sorted(NOT_APPLICABLE.items())],
    "notes": "Exit codes: 0 all obligations discharged; 1 VIOLATION lines; 2 undecided (anchor lost / tool limit), never "
             "reported as a violation. known_findings.json lists fixed and known defects.",
}
for e in m["engines"]:
    e["serves_properties"] = sorted(p for p, d in CLAIMED.items() if e["name"] in d["engine"])
json.dump(m, open(os.path.join(VERIF, "MANIFEST.json"), "w"), indent=1)
try:
    import jsonschema
except ImportError:
    jsonschema = None
if jsonschema: jsonschema.validate(m, json.load(open("/root/.vp/MANIFEST.schema.json")))
print("MANIFEST.json written:", len(checks), "checks,", len(NOT_APPLICABLE), "not applicable")
