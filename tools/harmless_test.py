#!/usr/bin/env python3
"""Sanity pass: semantics-preserving edits of /repo (renamed locals, reordered match arms, De-Morgan-rewritten
conditions, `x & M == M` written as `(x & M) != 0` for a single-bit M) applied to a scratch COPY must leave every
check green (exit 0) - an alarm here would be a false alarm. Usage: python3 tools/harmless_test.py"""
import os, shutil, subprocess, sys, tempfile
d = tempfile.mkdtemp(prefix='fselect-harmless.', dir='/tmp')
for x in ['src', 'Cargo.toml', 'Cargo.lock', 'resources']:
    s = os.path.join('/repo', x)
    (shutil.copytree if os.path.isdir(s) else shutil.copy)(s, os.path.join(d, x))
def edit(rel, pairs):
    p = os.path.join(d, rel); t = open(p).read()
    for a, b in pairs:
        assert t.count(a) == 1, (rel, a[:50])
        t = t.replace(a, b)
    open(p, 'w').write(t)
edit('src/searcher.rs', [
 ("""                    let val = value.to_int();
                    let int_value = field_value.to_int();
                    match op {
                        Op::Eq | Op::Eeq => int_value == val,
                        Op::Ne | Op::Ene => int_value != val,
                        Op::Gt => int_value > val,
                        Op::Gte => int_value >= val,
                        Op::Lt => int_value < val,
                        Op::Lte => int_value <= val,""",
  """                    let rhs = value.to_int();
                    let lhs = field_value.to_int();
                    match op {
                        Op::Gt => lhs > rhs,
                        Op::Gte => lhs >= rhs,
                        Op::Lt => !(lhs >= rhs),
                        Op::Lte => !(lhs > rhs),
                        Op::Eq | Op::Eeq => lhs == rhs,
                        Op::Ne | Op::Ene => !(lhs == rhs),"""),
 ("if min_depth == 0 || depth >= min_depth {", "if !(min_depth != 0 && depth < min_depth) {"),
 ("if !self.is_buffered() && self.query.limit > 0 && self.query.limit <= self.found", "if self.query.limit > 0 && self.found >= self.query.limit && !self.is_buffered()"),
])
edit('src/parser.rs', [("""                            } else if s.starts_with("arc") {
                                archives = true;
                                mode = RootParsingMode::Options;
                            } else if s.starts_with("sym") {
                                symlinks = true;
                                mode = RootParsingMode::Options;""", """                            } else if s.starts_with("sym") {
                                mode = RootParsingMode::Options;
                                symlinks = true;
                            } else if s == "arc" || s == "archives" || s.starts_with("arch") {
                                archives = true;
                                mode = RootParsingMode::Options;""")])
edit('src/expr.rs', [("Some(ref right) => Self::contains_numeric_field(right),\n            None => false,", "None => false,\n            Some(ref r) => Self::contains_numeric_field(r),")])
edit('src/operators.rs', [("            Op::Eq => Op::Ne,\n            Op::Ne => Op::Eq,", "            Op::Ne => Op::Eq,\n            Op::Eq => Op::Ne,")])
edit('src/mode.rs', [("mode & S_IRUSR == S_IRUSR", "(mode & S_IRUSR) != 0")])
edit('src/parser.rs', [("                        if let Ok(limit) = s.parse() {\n                            return Ok(limit);", "                        if let Ok(n) = s.parse() {\n                            return Ok(n);")])
# the functions hosted whole in scripted worlds (C17 / C18 / C19): renamed locals, swapped conjuncts, `contains` + `insert` folded into `insert`
edit('src/util/mod.rs', [
 ("""        let mut reader = BufReader::with_capacity(1024 * 32, file);
        let mut count = 0;
""", """        let mut rd = BufReader::with_capacity(1024 * 32, file);
        let mut count = 0;
"""),
 ("""                if let Ok(buf) = reader.fill_buf() {
                    if buf.is_empty() {
                        break;
                    }

                    count += bytecount::count(buf, b'\\n');
                    buf.len()""", """                if let Ok(chunk) = rd.fill_buf() {
                    if chunk.is_empty() {
                        break;
                    }

                    count += bytecount::count(chunk, b'\\n');
                    chunk.len()"""),
 ("            reader.consume(len);", "            rd.consume(len);"),
 ("            return buf[0] == 0x23 && buf[1] == 0x21;", "            return buf[1] == 0x21 && buf[0] == 0x23;"),
])
edit('src/util/datetime.rs', [(".and_then(|date| date.and_hms_opt(", ".and_then(|day| day.and_hms_opt(")])
edit('src/searcher.rs', [("""            if self.visited_dirs.contains(&real_dir) {
                return Ok(());
            } else {
                self.visited_dirs.insert(real_dir);
            }""", """            if !self.visited_dirs.insert(real_dir) {
                return Ok(());
            }""")])
bad = 0
out = tempfile.mkdtemp(prefix='fselect-harmless-out.', dir='/tmp')
env = dict(os.environ, VERIF_REPO=d, VERIF_OUT=out)      # evidence and replays of this pass go to a scratch directory
for prop in (sys.argv[1:] or ['C01', 'C02', 'C03', 'C04', 'C05', 'C06', 'C10', 'C11', 'C17', 'C18', 'C19']):
    p = subprocess.run(['python3', os.path.join(os.path.dirname(__file__), 'run_check.py'), prop], env=env, capture_output=True, text=True)
    print(prop, 'exit', p.returncode, p.stdout.strip().split('\n')[-1])
    bad += p.returncode != 0        # exit 2 (undecided) on a harmless edit is reported too: it is not an alarm, but worth knowing
shutil.rmtree(d, ignore_errors=True)
shutil.rmtree(out, ignore_errors=True)
sys.exit(1 if bad else 0)
