#!/bin/bash
# run every confirmed seeded change against the check of the property it targets; results in seeded/<id>/last_run.json
cd /verif
for d in seeded/*/; do
  id=$(basename $d)
  python3 tools/seed_run.py $id 2>&1 | cut -c1-200
done
