"""C12 - glob / LIKE translation tables."""
from common import *
G = 'verif_frag::glob::'
PRINTABLE = [chr(c) for c in range(32, 127)]
PARTS = 8
PER = (len(PRINTABLE) + PARTS - 1) // PARTS
OBLIGATIONS = []
for name, wild in [('glob', '* -> .*, ? -> .'), ('like', '% -> .*, _ -> . (and * ? literal)')]:
    for part in range(PARTS):
        chars = ''.join(PRINTABLE[part * PER:(part + 1) * PER])
        OBLIGATIONS.append(ob(f'C12.{name}.table.{part}', G + f'c12_{name}_table_{part}',
                              f'{name} translation, characters {chars!r}: under capture-then-map {wild}; every other regex metacharacter '
                              f'(\\ . + * ? ( ) | [ ] {{ }} ^ $) -> backslash + itself; every other character -> itself', units=['globtables']))
    OBLIGATIONS.append(ob(f'C12.{name}.noerror', G + f'c12_{name}_no_error_arm', f'no captured token of the {name} alternation reaches the error_exit arm', units=['globtables']))
OBLIGATIONS.append(ob('C12.cache.keys', 'verif_frag::regexkeys::c12_cache_keys', 'the regex cache keys used by the glob (= !=), regex (=~ !=~) and LIKE arms of conforms are pairwise distinct for the same pattern text (3 concrete texts), so `A or B` with the same literal under two operator kinds evaluates each with its own regex', units=['regexkeys'], complete=False, bound='3 concrete pattern texts'))
OBLIGATIONS.append(ob('C12.cache.injective', 'verif_frag::regexkeys::c12_cache_keys_injective', 'different pattern texts give different keys (2 witnesses)', units=['regexkeys'], complete=False, bound='2 concrete pairs'))
for _n in ['eq', 'ne', 'eeq', 'ene', 'rx', 'notrx', 'like', 'notlike']:
    OBLIGATIONS.append(ob(f'C12.op.table.{_n}', OPS + f'c11_op_{_n}', f'Op::from maps every documented spelling of the operator `{_n}` to that operator (same harness as C11.alias.op.{_n})', engine='K', units=['operators']))
OBLIGATIONS.append(ob('C12.op.negation', OPS + 'c03_negate_contract', 'each negative operator is the documented complement of its positive counterpart: contract of Op::negate (same as C03.negate.pairs)', engine='K', units=['operators'], twin=OPS + 't03_negate_pairs'))
SA = 'verif_frag::strarm::'
for _h, _d in [('glob', '`=` / `!=` with a wildcard: 4 witnesses (a*.txt, a?.txt against matching / non-matching names): the result is what the property demands and `!=` its complement; if a regex is compiled it is the glob translation of the pattern, matched against the subject'),
               ('glob_edge', 'edge witnesses: prefix/suffix overlap (ab*ba vs aba: no match), empty run (abba), letter case (*.TXT vs ab.txt), two stars'),
               ('plain', '`=` / `!=` without wildcard: text equality / its complement, no regex compiled, regex metacharacters match only themselves'),
               ('strict', '`===` / `!==`: literal text comparison even when the pattern contains * or ?'),
               ('rx_like', '`=~` / `!=~` compile the pattern text itself, `like` / `notlike` its LIKE translation (no glob expansion); negatives are complements'),
               ('cached', 'a second evaluation gives the same answer; the same text under another operator kind is not answered by the cached regex of the first')]:
    OBLIGATIONS.append(ob(f'C12.arm.{_h}', SA + f'c12_arm_{_h}', 'String arm of Searcher::conforms (whole block verbatim on a shim world; the shim Regex answers as a correct engine would for the correct translation of the witness pattern and flags any other use): ' + _d, units=['strarm'], complete=False, bound='concrete subject / pattern witnesses'))
CANARIES = [dict(harness=G + 'canary_glob_must_fail', units=['globtables']), dict(harness=SA + 'canary_strarm_must_fail', units=['strarm'])]
ASSUMPTIONS = ['printable ASCII only (the property alphabet); non-ASCII characters are not regex metacharacters']
NOT_COVERED = ['anchoring ^..$ and case-insensitivity (?i)', 'the regex engine itself', 'the String arm of conforms beyond the witness texts']
