"""C12 - glob / LIKE translation tables."""
from common import *
G = 'verif_frag::glob::'
PRINTABLE = [chr(c) for c in range(32, 127)]
PARTS = 8
PER = (len(PRINTABLE) + PARTS - 1) // PARTS
OBLIGATIONS = []
for name, wild in [('glob', '* -> .*, ? -> .'), ('like', '% -> .*, _ -> . (and * ? literal)')]:
    for part in range(PARTS):
        chars = ''.join(PRINTABLE[part * PER:(part + 1) * PER])
        OBLIGATIONS.append(ob(f'C12.{name}.table.{part}', G + f'c12_{name}_table_{part}',
                              f'{name} translation, characters {chars!r}: under capture-then-map {wild}; every other regex metacharacter '
                              f'(\\ . + * ? ( ) | [ ] {{ }} ^ $) -> backslash + itself; every other character -> itself', units=['globtables']))
    OBLIGATIONS.append(ob(f'C12.{name}.noerror', G + f'c12_{name}_no_error_arm', f'no captured token of the {name} alternation reaches the error_exit arm', units=['globtables']))
OBLIGATIONS.append(ob('C12.cache.keys', 'verif_frag::regexkeys::c12_cache_keys', 'the regex cache keys used by the glob (= !=), regex (=~ !=~) and LIKE arms of conforms are pairwise distinct for the same pattern text (3 concrete texts), so `A or B` with the same literal under two operator kinds evaluates each with its own regex', units=['regexkeys'], complete=False, bound='3 concrete pattern texts'))
OBLIGATIONS.append(ob('C12.cache.injective', 'verif_frag::regexkeys::c12_cache_keys_injective', 'different pattern texts give different keys (2 witnesses)', units=['regexkeys'], complete=False, bound='2 concrete pairs'))
for _n in ['eq', 'ne', 'eeq', 'ene', 'rx', 'notrx', 'like', 'notlike']:
    OBLIGATIONS.append(ob(f'C12.op.table.{_n}', OPS + f'c11_op_{_n}', f'Op::from maps every documented spelling of the operator `{_n}` to that operator (same harness as C11.alias.op.{_n})', engine='K', units=['operators']))
OBLIGATIONS.append(ob('C12.op.negation', OPS + 'c03_negate_contract', 'each negative operator is the documented complement of its positive counterpart: contract of Op::negate (same as C03.negate.pairs)', engine='K', units=['operators'], twin=OPS + 't03_negate_pairs'))
CANARIES = [dict(harness=G + 'canary_glob_must_fail', units=['globtables'])]
ASSUMPTIONS = ['printable ASCII only (the property alphabet); non-ASCII characters are not regex metacharacters']
NOT_COVERED = ['anchoring ^..$ and case-insensitivity (?i)', 'the regex engine itself', 'the Eq/Ne/Like/NotLike/Rx branches of conforms and the shared regex_cache keyed by pattern text', 'is_glob']
