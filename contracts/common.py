def ob(id, h, desc, engine='F', units=(), complete=True, bound=None, twin=None, tier='quick'):
    return dict(id=id, engine=engine, harness=h, twin=twin or h, complete=complete, bound=bound, desc=desc,
                units=list(units), tier=tier)

CMP = 'verif_frag::cmp::'
LOGIC = 'verif_frag::logic::'
GD = 'verif_frag::gate_depth::'
GW = 'verif_frag::gate_window::'
BETW = 'verif_frag::between::'
OPS = 'operators::verif_kani::'
