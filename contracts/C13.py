"""C13 - date comparison table."""
from common import *
OBLIGATIONS = [
    ob('C13.cmp.datetime', CMP + 'c13_cmp_datetime', 'for all i64 t, a <= b: = iff a<=t<=b, != its complement, < iff t<a, > iff t>b, <= iff t<=b, >= iff t>=a (DateTime arm of conforms)', units=['cmp']),
    ob('C13.trichotomy', CMP + 'c13_trichotomy', 'for all t and intervals: exactly one of <, =, > holds, and != is the complement of =', units=['cmp']),
]
CANARIES = [dict(harness=CMP + 'canary_cmp_must_fail', units=['cmp'])]
ASSUMPTIONS = ['the interval [start, finish] delivered by Variant::to_datetime / parse_datetime satisfies start <= finish (requires; not proved: regex + chrono)',
               'timestamps are i64 seconds (and_utc().timestamp() of chrono, replaced by an identity shim in the fragment)']
NOT_COVERED = ['parse_datetime: which interval a literal denotes (regex, chrono, chrono-english)', 'relative literals today/yesterday', 'format_datetime / the modified column rendering', 'the lexer date/minus disambiguation']
