"""C13 - date comparison table."""
from common import *
OBLIGATIONS = [
    ob('C13.cmp.datetime', CMP + 'c13_cmp_datetime', 'for all i64 t, a <= b: = iff a<=t<=b, != its complement, < iff t<a, > iff t>b, <= iff t<=b, >= iff t>=a (DateTime arm of conforms)', units=['cmp']),
    ob('C13.trichotomy', CMP + 'c13_trichotomy', 'for all t and intervals: exactly one of <, =, > holds, and != is the complement of =', units=['cmp']),
]
OBLIGATIONS.append(ob('C13.precision', 'verif_frag::dateprecision::c13_precision', 'time-of-day block of parse_datetime (verbatim): a literal with day / hour / minute / second precision yields start = the given fields padded with 0 and finish = padded with 23:59:59 (closed interval it covers); a time of day outside 00:00:00..23:59:59 is rejected before chrono is called (no unwrap on None); for all captured values < 100', units=['dateprecision']))
OBLIGATIONS.append(ob('C13.calendar', 'verif_frag::dateprecision::c10_date_calendar', 'calendar part of parse_datetime (verbatim, shim calendar): start and finish of the interval lie on the day written and carry the start / finish time of day (same harness as C10.date.calendar)', units=['dateprecision']))
OBLIGATIONS.append(ob('C13.lexer.datelike', 'verif_frag::datelike::c13_datelike', 'lexer::looks_like_date (whole body verbatim on a shim regex world), every 4-digit year and 2-digit month: an unquoted word is kept together as a date exactly when it starts with a year 1970..2999 optionally followed by a month 01..12', units=['datelike']))
CANARIES = [dict(harness='verif_frag::datelike::canary_datelike_must_fail', units=['datelike']), dict(harness=CMP + 'canary_cmp_must_fail', units=['cmp'])]
ASSUMPTIONS = ['the interval [start, finish] delivered by Variant::to_datetime / parse_datetime satisfies start <= finish (requires; not proved: regex + chrono)',
               'timestamps are i64 seconds (and_utc().timestamp() of chrono, replaced by an identity shim in the fragment)']
NOT_COVERED = ['parse_datetime: which interval a literal denotes (regex, chrono, chrono-english)', 'relative literals today/yesterday', 'format_datetime / the modified column rendering', 'the lexer date/minus disambiguation']
