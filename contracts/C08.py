"""C08 - GROUP BY: partition of the buffered rows (bounded, all key assignments), grouping keys reach the row map, parser side."""
from common import *
OBLIGATIONS = [
    ob('C08.partition', 'verif_frag::groupby::c08_partition', 'real partition_output_buffer (whole function verbatim on a heap-free shim world with token texts): for EVERY assignment of key values (2-element domain: all 8 assignments) to 3 buffered rows there is one group per distinct key value, every row is in the group of its own key and in no other, in buffer order, and the group sizes add up to the number of rows', units=['groupby'], complete=False, bound='3 buffered rows, 1 grouping expression, key values from a 2-element domain'),
    ob('C08.keys.evaluated', 'verif_frag::rowcolumns::c07_columns_evaluated', 'check_file, grouping-key loop (verbatim on a shim world): a GROUP BY key that is not selected is evaluated for every accepted entry and reaches the per-entry row map the partition reads (same harness as C07.columns.evaluated)', units=['rowcolumns'], complete=False, bound='1 query shape'),
]
OBLIGATIONS.append(dict(id='C08.groupby.parse', engine='V', verus_fn='Parser::parse_group_by', label=None, complete=True, bound=None, units=[], harness='verus:Parser::parse_group_by', tier='quick',
    desc='real parse_group_by, every token vector: panic-free (no unwrap on a missing key), terminating, cursor frame (same obligation as C10.parser.nopanic.parse_group_by)'))
CANARIES = [dict(harness='verif_frag::groupby::canary_groupby_must_fail', units=['groupby']), dict(harness='verif_frag::rowcolumns::canary_rowcolumns_must_fail', units=['rowcolumns'])]
ASSUMPTIONS = ['std HashMap behaves as a finite map (association-list stand-in in the shim world)']
NOT_COVERED = ['the grouped output loop of list_search_results (per-group evaluation with buffer_data = the group rows, sort_by over group rows): so that each group row shows the aggregates of its own rows is NOT verified', 'more than one grouping expression / more than 3 rows', 'ORDER BY over group rows']
HARNESS_TIMEOUT = 600
