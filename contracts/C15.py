"""C15 - expressions: operator table (bounded witnesses); unary minus in the parser is added by the Verus engine."""
from common import *
OBLIGATIONS = [
    ob('C15.calc.table', 'verif_frag::calc::c15_calc_witnesses', 'ArithmeticOp::calc dispatch: + - * / applied to (left, right) in that order, on 8 concrete witness pairs with pairwise distinct results', units=['cmp', 'calc'], complete=False, bound='8 concrete operand pairs (symbolic f64 arithmetic does not terminate in CBMC; % not modelled)'),
    ob('C15.calc.total', 'verif_frag::calc::c15_calc_total', 'ArithmeticOp::calc does not panic on fractional or zero divisors for / and % (5 witnesses; the value of % is not checked)', units=['cmp', 'calc'], complete=False, bound='5 concrete operand pairs'),
]
for h, d in [('operator', 'size + 1 / size - 1 / size * 1'), ('brackets', '2 + 3 * 4 vs (2 + 3) * 4; 1 - (2 - 3) vs (1 - 2) - 3'), ('args', 'substr(name,1,2) vs substr(name,1,3)'), ('sign', '-size vs size; length(name) vs name')]:
    OBLIGATIONS.append(ob(f'C15.display.injective.{h}', 'verif_frag::exprkey::c15_key_' + h, f'Display for Expr (verbatim body on shim types) gives different cache keys to: {d}', units=['exprkey'], complete=False, bound='concrete expression pairs'))
OBLIGATIONS.append(ob('C15.minus.column', 'verif_frag::colvalue::c15_minus_column', 'get_column_expr_value (verbatim body on shim types): a leading minus negates the value of a column, of a function call and of a literal; without it the value is unchanged (4 witnesses)', units=['colvalue'], complete=False, bound='4 concrete expressions'))
OBLIGATIONS.append(ob('C15.negative.literal', 'function::verif_kani::c15_negative_literal', 'the real Variant::to_int / from_signed_string: the literals -5, 5, 0 denote themselves and a leading minus negates a literal (5 witnesses)', engine='K', units=['variant'], complete=False, bound='5 concrete literals'))
OBLIGATIONS.append(ob('C15.where.float', CMP + 'c02_cmp_float', 'a WHERE condition on a fractional expression value compares the exact f64 value (float arm of conforms, all non-NaN f64 pairs; shared with C02)', units=['cmp']))
OBLIGATIONS.append(dict(id='C15.tree.muldiv', engine='V', verus_fn='Parser::parse_mul_div', label='C15.tree.muldiv', complete=True, bound=None, units=[], harness='verus:Parser::parse_mul_div', tier='quick',
    desc='real parse_mul_div, every iteration, every token vector: the node built for `L OP R` (OP in * / %) is exactly arithmetic(L, the operator just read, R) with the chain so far as LEFT child: left-associative, operator and operands not swapped or reused'))
OBLIGATIONS.append(dict(id='C15.tree.addsub', engine='V', verus_fn='Parser::parse_add_sub', label='C15.tree.addsub', complete=True, bound=None, units=[], harness='verus:Parser::parse_add_sub', tier='quick',
    desc='same for parse_add_sub with + and -; its operands come from parse_mul_div (so * / % bind tighter - by the call structure)'))
CANARIES = [dict(harness='function::verif_kani::canary_function_must_fail', units=['variant']), dict(harness='verif_frag::exprkey::canary_exprkey_must_fail', units=['exprkey']), dict(harness='verif_frag::colvalue::canary_colvalue_must_fail', units=['colvalue'])]
ASSUMPTIONS = ['IEEE-754 f64 arithmetic evaluated by CBMC constant propagation on the witnesses']
NOT_COVERED = ['evaluation of a binary node by get_column_expr_value (the recursive shim harness did not terminate in 240 s and was removed)', 'precedence / associativity of the parsed tree', 'independence of columns beyond the listed key pairs (get_column_expr_value itself is not under contract)', 'get_column_expr_value', 'lexer operator detection', '% (fmod unsupported by CBMC)', 'all non-witness operand values']
HARNESS_TIMEOUT = 240
