"""C15 - expressions: operator table (bounded witnesses); unary minus in the parser is added by the Verus engine."""
from common import *
OBLIGATIONS = [
    ob('C15.calc.table', 'verif_frag::calc::c15_calc_witnesses', 'ArithmeticOp::calc dispatch: + - * / applied to (left, right) in that order, on 8 concrete witness pairs with pairwise distinct results', units=['calc'], complete=False, bound='8 concrete operand pairs (symbolic f64 arithmetic does not terminate in CBMC; % not modelled)'),
]
CANARIES = []
ASSUMPTIONS = ['IEEE-754 f64 arithmetic evaluated by CBMC constant propagation on the witnesses']
NOT_COVERED = ['precedence / associativity of the parsed tree', 'independence of columns (Display for Expr as memo key: out of reach of both tools)', 'get_column_expr_value', 'lexer operator detection', '% (fmod unsupported by CBMC)', 'all non-witness operand values']
