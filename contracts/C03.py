"""C03 - Boolean algebra: negation table, complement per typed arm, logic table, NOT BETWEEN."""
from common import *
OBLIGATIONS = [
    ob('C03.negate.pairs', OPS + 'c03_negate_contract', 'contract of Op::negate: for all 14 operators the result is the documented complement (= <-> !=, === <-> !==, > <-> <=, < <-> >=, rx/like/between <-> their not-forms)', engine='K', units=['operators'], twin=OPS + 't03_negate_pairs'),
    ob('C03.negate.involution', OPS + 'c03_negate_involution', 'negate(negate(op)) == op and negate(op) != op for all 14 operators', engine='K', units=['operators']),
    ob('C03.from_with_not', OPS + 'c03_from_with_not_gt', '`x not > y` / `x not like y` parse to the complement operator (concrete spellings)', engine='K', units=['operators'], complete=False, bound='3 concrete spellings'),
    ob('C03.negate.complement.int', CMP + 'c03_negate_complement_int', 'for all 8 comparison ops and all i64 operands: int arm under the REAL Op::negate(op) == !(int arm under op)', units=['cmp']),
    ob('C03.negate.complement.float', CMP + 'c03_negate_complement_float', 'same for the float arm, all non-NaN f64 operands', units=['cmp']),
    ob('C03.negate.complement.bool', CMP + 'c03_negate_complement_bool', 'same for the bool arm (= != === !==)', units=['cmp']),
    ob('C03.negate.complement.datetime', CMP + 'c03_negate_complement_datetime', 'same for the date arm, all i64 t and intervals a <= b', units=['cmp']),
    ob('C03.logic.table', LOGIC + 'c03_logic_table', 'the logical block of conforms returns l && r for AND and l || r for OR, for all truth values of the two sub-conditions', units=['logic']),
    ob('C03.notbetween.complement', BETW + 'c03_notbetween_complement', 'for all i64 x, a, b: the desugaring of `x not between a and b` evaluates to the negation of the desugaring of `x between a and b` (through the real int arm)', units=['cmp', 'between']),
    ob('C03.between.ops', BETW + 'c03_between_ops_are_comparisons', 'BETWEEN is desugared to plain comparison operators in both polarities', units=['cmp', 'between']),
]
OBLIGATIONS.append(dict(id='C03.demorgan', engine='V', verus_fn='Parser::negate_expr_op', label='C03.demorgan', complete=True, bound=None, units=[], harness='verus:Parser::negate_expr_op', tier='quick',
    desc='for condition trees of unbounded depth: sem(negate_expr_op(e)) == !sem(e) and the result is again a well-formed condition tree, where sem mirrors conforms (AND/OR over children, uninterpreted comparison atoms constrained only by atom(negate(op)) == !atom(op))'))
OBLIGATIONS.append(dict(id='C03.negate.spec.V', engine='V', verus_fn='Op::negate', label=None, complete=True, bound=None, units=[], harness='verus:Op::negate', tier='quick',
    desc='the real Op::negate equals the documented complement table (same table as the Kani contract; ties the atom axiom to the real function)'))
CANARIES = [dict(harness=CMP + 'canary_cmp_must_fail', units=['cmp']), dict(harness=LOGIC + 'canary_logic_must_fail', units=['logic']),
            dict(harness=OPS + 'canary_ops_must_fail', units=['operators'])]
ASSUMPTIONS = ['float arm: stated for non-NaN operands (IEEE comparisons with NaN are not complements)', 'date arm: start <= finish']
NOT_COVERED = ['AND-over-OR precedence and bracket override as a statement about the parsed tree', 'string arm (regex)', '`not` over atoms whose columns may be absent']
