"""C03 - Boolean algebra: negation table, complement per typed arm, logic table, NOT BETWEEN."""
from common import *
OBLIGATIONS = [
    ob('C03.negate.pairs', OPS + 'c03_negate_contract', 'contract of Op::negate: for all 14 operators the result is the documented complement (= <-> !=, === <-> !==, > <-> <=, < <-> >=, rx/like/between <-> their not-forms)', engine='K', units=['operators'], twin=OPS + 't03_negate_pairs'),
    ob('C03.negate.involution', OPS + 'c03_negate_involution', 'negate(negate(op)) == op and negate(op) != op for all 14 operators', engine='K', units=['operators']),
    ob('C03.from_with_not', OPS + 'c03_from_with_not_gt', '`x not > y` / `x not like y` parse to the complement operator (concrete spellings)', engine='K', units=['operators'], complete=False, bound='3 concrete spellings'),
    ob('C03.negate.complement.int', CMP + 'c03_negate_complement_int', 'for all 8 comparison ops and all i64 operands: int arm under the REAL Op::negate(op) == !(int arm under op)', units=['cmp']),
    ob('C03.negate.complement.float', CMP + 'c03_negate_complement_float', 'same for the float arm, all non-NaN f64 operands', units=['cmp']),
    ob('C03.negate.complement.bool', CMP + 'c03_negate_complement_bool', 'same for the bool arm (= != === !==)', units=['cmp']),
    ob('C03.negate.complement.datetime', CMP + 'c03_negate_complement_datetime', 'same for the date arm, all i64 t and intervals a <= b', units=['cmp']),
    ob('C03.logic.table', LOGIC + 'c03_logic_table', 'the logical block of conforms returns l && r for AND and l || r for OR, for all truth values of the two sub-conditions', units=['logic']),
    ob('C03.notbetween.complement', BETW + 'c03_notbetween_complement', 'for all i64 x, a, b: the desugaring of `x not between a and b` evaluates to the negation of the desugaring of `x between a and b` (through the real int arm)', units=['cmp', 'between']),
    ob('C03.between.ops', BETW + 'c03_between_ops_are_comparisons', 'BETWEEN is desugared to plain comparison operators in both polarities', units=['cmp', 'between']),
]
OBLIGATIONS.append(dict(id='C03.demorgan', engine='V', verus_fn='Parser::negate_expr_op', label='C03.demorgan', complete=True, bound=None, units=[], harness='verus:Parser::negate_expr_op', tier='quick',
    desc='for condition trees of unbounded depth: sem(negate_expr_op(e)) == !sem(e) and the result is again a well-formed condition tree, where sem mirrors conforms (AND/OR over children, uninterpreted comparison atoms constrained only by atom(negate(op)) == !atom(op))'))
OBLIGATIONS.append(dict(id='C03.negate.spec.V', engine='V', verus_fn='Op::negate', label=None, complete=True, bound=None, units=[], harness='verus:Op::negate', tier='quick',
    desc='the real Op::negate equals the documented complement table (same table as the Kani contract; ties the atom axiom to the real function)'))
OBLIGATIONS.append(ob('C03.cache.keys', 'verif_frag::regexkeys::c12_cache_keys', 'the regex cache keys used by the glob (= !=), regex (=~ !=~) and LIKE arms of conforms are pairwise distinct for the same pattern text (3 concrete texts), so `A or B` with the same literal under two operator kinds evaluates each with its own regex', units=['regexkeys'], complete=False, bound='3 concrete pattern texts'))
OBLIGATIONS.append(ob('C03.cache.injective', 'verif_frag::regexkeys::c12_cache_keys_injective', 'different pattern texts give different keys (2 witnesses)', units=['regexkeys'], complete=False, bound='2 concrete pairs'))
OBLIGATIONS.append(dict(id='C03.tree.or', engine='V', verus_fn='Parser::parse_expr', label='C03.tree.or', complete=True, bound=None, units=[], harness='verus:Parser::parse_expr', tier='quick',
    desc='real parse_expr, every iteration: the right-hand chain of an OR is built as logical(chain, Or, operand) - operator and operand order fixed'))
OBLIGATIONS.append(dict(id='C03.tree.and', engine='V', verus_fn='Parser::parse_and', label='C03.tree.and', complete=True, bound=None, units=[], harness='verus:Parser::parse_and', tier='quick',
    desc='real parse_and, every iteration: logical(chain, And, operand); its operands come from parse_cond and the operands of OR from parse_and (AND binds tighter - by the call structure)'))
OBLIGATIONS.append(dict(id='C03.brackets', engine='V', verus_fn='Parser::parse_paren', label='C11.brackets', complete=True, bound=None, units=[], harness='verus:Parser::parse_paren', tier='quick',
    desc='real parse_paren, every token vector: a round-bracketed expression is accepted only when closed by a round bracket, a curly one only by a curly bracket; the bracketed expression is returned unchanged (both styles mean the same)'))
OBLIGATIONS.append(ob('C03.negate.complement.string', 'verif_frag::strarm::c12_arm_glob_edge', 'String arm of conforms (whole block verbatim on a shim world): on every witness the negative operator (`!=`) returns the complement of the positive one (same harness as C12.arm.glob_edge)', units=['strarm'], complete=False, bound='concrete witness texts'))
OBLIGATIONS.append(ob('C03.negate.complement.string.rx', 'verif_frag::strarm::c12_arm_rx_like', 'String arm of conforms: `!=~` / `notlike` return the complement of `=~` / `like` on every witness (same harness as C12.arm.rx_like)', units=['strarm'], complete=False, bound='concrete witness texts'))
OBLIGATIONS.append(dict(id='C03.not.parity', engine='V', verus_fn='Parser::parse_cond', label='C03.not.parity', complete=True, bound=None, units=[], harness='verus:Parser::parse_cond', tier='quick',
    desc='real parse_cond, every token vector: the condition is negated exactly when the number of NOT tokens in front of it is odd (so `not not A` is A); loop invariant over a recursive count of the leading NOT tokens'))
OBLIGATIONS.append(dict(id='C03.cond.operator', engine='V', verus_fn='Parser::parse_cond', label='C03.cond.operator', complete=True, bound=None, units=[], harness='verus:Parser::parse_cond', tier='quick',
    desc='real parse_cond, every token vector: `x OP y` (OP not BETWEEN) builds exactly the node (x, the operator the spelling OP denotes, y) and `x not OP y` the node with the complement operator (Op::from_with_not proved against Op::negate; the spelling table itself: C11.alias.op.*)'))
CANARIES = [dict(harness='verif_frag::strarm::canary_strarm_must_fail', units=['strarm']), dict(harness=CMP + 'canary_cmp_must_fail', units=['cmp']), dict(harness=LOGIC + 'canary_logic_must_fail', units=['logic']),
            dict(harness=OPS + 'canary_ops_must_fail', units=['operators'])]
ASSUMPTIONS = ['float arm: stated for non-NaN operands (IEEE comparisons with NaN are not complements)', 'date arm: start <= finish']
NOT_COVERED = ['AND-over-OR precedence and bracket override as a statement about the parsed tree', 'string arm (regex)', '`not` over atoms whose columns may be absent']
