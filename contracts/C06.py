"""C06 - LIMIT gates."""
from common import *
OBLIGATIONS = [
    ob('C06.gate.dir', GATES + 'c06_gate_dir', 'for all bool buffered, u32 limit, found: the directory loop stops early iff !buffered and limit > 0 and found >= limit', units=['gates']),
    ob('C06.gate.archive', GATES + 'c06_gate_archive', 'the archive-member loop stops early under exactly the same condition (never when the output is buffered for ORDER BY / aggregates, never for limit 0)', units=['gates']),
]
OBLIGATIONS.append(dict(id='C06.limit.parse', engine='V', verus_fn='Parser::parse_limit', label='C06.limit.parse', complete=True, bound=None, units=[], harness='verus:Parser::parse_limit', tier='quick',
    desc='for every token vector: no LIMIT token -> Ok(0) and the cursor is unchanged; LIMIT followed by a word -> the u32 that word denotes, or Err when it denotes none; LIMIT followed by anything else -> Err'))
CANARIES = [dict(harness=GATES + 'canary_gates_must_fail', units=['gates'])]
ASSUMPTIONS = ['self.found counts accepted rows (check_file, unverified)', 'is_buffered() is true exactly for ordered or aggregated queries (unverified)']
NOT_COVERED = ['TopN::insert for arbitrary histories (BTreeMap: beyond CBMC and Verus here)', 'found accounting in check_file', 'implicit limit 1']
