"""C06 - LIMIT gates."""
from common import *
OBLIGATIONS = [
    ob('C06.gate.dir', 'verif_frag::gate_exit_dir::c06_gate', 'for all bool buffered, u32 limit, found: the directory loop stops early iff !buffered and limit > 0 and found >= limit', units=['gate_exit_dir']),
    ob('C06.gate.archive', 'verif_frag::gate_exit_archive::c06_gate', 'the archive-member loop stops early under exactly the same condition (never when the output is buffered for ORDER BY / aggregates, never for limit 0)', units=['gate_exit_archive']),
]
OBLIGATIONS.append(dict(id='C06.limit.parse', engine='V', verus_fn='Parser::parse_limit', label='C06.limit.parse', complete=True, bound=None, units=[], harness='verus:Parser::parse_limit', tier='quick',
    desc='for every token vector: no LIMIT token -> Ok(0) and the cursor is unchanged; LIMIT followed by a word -> the u32 that word denotes, or Err when it denotes none; LIMIT followed by anything else -> Err'))
OBLIGATIONS.append(ob('C06.found.accounting', 'verif_frag::rowprologue::c06_found_accounting', 'check_file prologue (verbatim on a shim world), all inputs: an entry is counted in `found` (the quantity the LIMIT gates compare with) exactly once when there is no WHERE or its WHERE condition holds, and not at all when it is rejected; the condition is evaluated once', units=['rowprologue']))
OBLIGATIONS.append(ob('C06.limit.assembled', 'verif_frag::parsetop::c10_clause_sequence', 'Parser::parse after the token loop (verbatim, shim Parser): the limit of the Query is the u32 parse_limit returned for every value; 0 (absent / `limit 0`) stays unlimited unless no select-list column needs a file, in which case exactly one row is produced (same harness as C10.clause.sequence)', units=['parsetop']))
CANARIES = [dict(harness='verif_frag::parsetop::canary_parsetop_must_fail', units=['parsetop']), dict(harness='verif_frag::rowprologue::canary_rowprologue_must_fail', units=['rowprologue']), dict(harness='verif_frag::gate_exit_dir::canary_must_fail', units=['gate_exit_dir']), dict(harness='verif_frag::gate_exit_archive::canary_must_fail', units=['gate_exit_archive'])]
ASSUMPTIONS = ['self.found counts accepted rows (check_file, unverified)', 'is_buffered() is true exactly for ordered or aggregated queries (unverified)']
NOT_COVERED = ['TopN::insert for arbitrary histories (BTreeMap: beyond CBMC and Verus here)', 'found accounting in check_file', 'implicit limit 1']
