"""C05"""
from common import *
OBLIGATIONS = [
    ob('C05.criteria.lex', 'verif_frag::criteria::c05_criteria_lex', 'Criteria::cmp (whole body): result = first non-Equal per-key comparison, else the length comparison; key lists up to length 3, per-key orderings fully symbolic', units=['criteria'], complete=False, bound='<= 3 keys (the bound of the property)'),
    ob('C05.criteria.at', 'verif_frag::criteria::c05_criteria_at', 'Criteria::cmp_at: numeric key -> numeric comparison, else date key -> chronological, else direct; ascending keeps, desc reverses - for all 2^3 x 3^3 combinations', units=['criteria']),
    ob('C05.key.numeric', 'verif_frag::criteria::c05_key_numeric', 'cmp_at_numbers / cmp_at_direct (verbatim bodies on a shim value type): a numeric key compares by exact numeric value for all u64 pairs (no rounding), other keys by the value own order', units=['criteria']),
    ob('C05.orderby.positional', 'verif_frag::orderby::c05_positional', 'positional arm of parse_order_by: for |columns| <= 3 and every usize k: 1 <= k <= |columns| selects column k-1, anything else is an error', units=['orderby_arms'], complete=False, bound='select list of <= 3 columns; k unbounded'),
    ob('C05.orderby.desc', 'verif_frag::orderby::c05_desc', 'DESC arm of parse_order_by: flips exactly the last pushed direction; rejected when no key precedes it', units=['orderby_arms'], complete=False, bound='<= 3 keys'),
    ob('C05.numeric.classification', 'field::verif_kani::c05_numeric_classification', 'for every variant of the real Field enum: documented integer columns are is_numeric_field, created/accessed/modified are is_datetime_field, documented text columns are neither', engine='K', units=['fieldclass']),
]
OBLIGATIONS.append(dict(id='C05.orderby.parse', engine='V', verus_fn='Parser::parse_order_by', label='C05.orderby.parse', complete=True, bound=None, units=[], harness='verus:Parser::parse_order_by', tier='quick',
    desc='for every token vector: on success the key list and the direction list of the real parse_order_by have equal length; positional keys are bounds-checked (index in range proved), `desc` never underflows'))
OBLIGATIONS.append(dict(id='C05.key.numeric.detect', engine='V', verus_fn='Expr::contains_numeric_field', label='C05.key.numeric.detect', complete=True, bound=None, units=[], harness='verus:Expr::contains_numeric_field', tier='quick',
    desc='real Expr::contains_numeric / contains_numeric_field (extracted verbatim), key expressions of any depth: a sort key is compared numerically exactly when a numeric column or numeric function occurs in it - on EITHER side of an operator (`1 + size` like `size + 1`)'))
CANARIES = [dict(harness='verif_frag::criteria::canary_criteria_must_fail', units=['criteria']), dict(harness='field::verif_kani::canary_field_must_fail', units=['fieldclass'])]
ASSUMPTIONS = ['per-key comparisons (parse_filesize / parse_datetime / T::cmp) are total orders; they enter the fragments as symbolic Ordering values', 'cmp(b, a) == cmp(a, b).reverse() for the per-key comparison (used only if the source swaps the operands)']
NOT_COVERED = ['that the buffered rows come out in Criteria order and form a permutation (TopN / BTreeMap: beyond CBMC and Verus here)', 'date key comparison (parse_datetime), the text -> number step of numeric keys (parse_filesize: C14)', 'Expr::contains_numeric / contains_datetime on expression keys', 'check_file building the criteria vector']
HARNESS_TIMEOUT = 300
