"""C05"""
from common import *
OBLIGATIONS = []
OBLIGATIONS.append(dict(id='C05.orderby.parse', engine='V', verus_fn='Parser::parse_order_by', label='C05.orderby.parse', complete=True, bound=None, units=[], harness='verus:Parser::parse_order_by', tier='quick',
    desc='for every token vector: on success the key list and the direction list of the real parse_order_by have equal length; positional keys are bounds-checked (index in range proved), `desc` never underflows'))
CANARIES = []
ASSUMPTIONS = []
NOT_COVERED = []
