"""C14 - size literals: the unit ladder of parse_filesize."""
from common import *
FS = 'verif_frag::filesize::'
UNITS = ['k', 'kib', 'kb', 'm', 'mib', 'mb', 'g', 'gib', 'gb', 't', 'tib', 'tb', 'b']
OBLIGATIONS = []
for u in UNITS:
    OBLIGATIONS.append(ob(f'C14.ladder.table.{u}', FS + f'c14_table_{u}', f'the documented unit `{u}` has a rung in parse_filesize, is reached first (not shadowed by an earlier rung) and strips exactly len("{u}") characters', units=['filesize']))
    OBLIGATIONS.append(ob(f'C14.ladder.mult32.{u}', FS + f'c14_mult32_{u}', f'thorough tier: for all integers n < 2^32 (n < 2^20 for mb / gb / tb, whose repeated decimal multiplications time out beyond that) with n x multiplier < 2^53: the rung reached by `<n>{u}` returns n x the documented multiplier', units=['filesize'], complete=False, bound='n < 2^32 (2^20 for mb, gb, tb)', tier='thorough'))
    OBLIGATIONS.append(ob(f'C14.ladder.mult.{u}', FS + f'c14_mult_{u}', f'for all integers n < 65536: the rung reached by `<n>{u}` returns n x the documented multiplier', units=['filesize'], complete=False, bound='n < 2^16 (u32 takes ~140 s per rung in CBMC; f64 multiplication is bit-blasted)'))
UM = 'util::verif_kani::'
for h, d in [('k', 'k / kib / kb in both cases'), ('m', 'm / mib / mb'), ('g', 'g / gib / gb'), ('t', 't / tib / tb'), ('b', 'b and bare numbers'),
             ('frac', 'fractional numbers incl. a fraction with a leading zero (1.0625K = 1088)'), ('space', 'a blank between number and unit'), ('bad', 'non-literals are rejected')]:
    OBLIGATIONS.append(ob(f'C14.whole.{h}', UM + f'c14_whole_{h}', f'the REAL parse_filesize (whole function) on concrete witness literals: {d}', engine='K', units=['utilmod'], complete=False, bound='concrete witness literals'))
for h, d in [('flags', 'no unit: default / d / c / s flags and the precision default'), ('units', 'k kib kb ck m mib mb'), ('units_large', 'g gib gb t tib tb b and combined flags')]:
    OBLIGATIONS.append(ob(f'C14.format.{h}', 'verif_frag::sizefmt::c14_format_' + h, f'option table of format_filesize (verbatim, shim humansize): {d} select the documented base, fixed unit and precision', units=['sizefmt'], complete=False, bound='concrete specifier unit strings from the documentation table'))
OBLIGATIONS.append(ob('C14.format.precedence', 'verif_frag::sizefmt::c14_format_precedence', 'option table of format_filesize (verbatim, shim humansize): the base flags c / d decide the base whatever the spelling of the fixed unit (ckb, cmb, cgb, ctb, cm, cg, cskb stay conventional = 1024-based; dk, dm are 1000-based), as documented for `%.0 ck`', units=['sizefmt'], complete=False, bound='10 concrete specifier unit strings'))
for u in ['none', 'b', 'k', 'kib', 'kb', 'm', 'mib', 'mb', 'g', 'gib', 'gb', 't', 'tib', 'tb']:
    OBLIGATIONS.append(ob(f'C14.format.grid.{u}', f'verif_frag::sizefmt::c14_format_grid_{u}', f'option table of format_filesize (verbatim, shim humansize), unit `{u}` under every subset of the flags c, d, s that holds at most one base flag: the unit fixes FixedAt, d selects the 1000-based base, otherwise c the conventional one, otherwise the spelling of the unit; s leaves the options alone; an explicit precision is kept', units=['sizefmt'], complete=False, bound='6 flag subsets (c and d together are not documented; flags written in the order c d s in front of the unit), precision 0..3 explicit'))
OBLIGATIONS.append(ob('C14.format.text', 'verif_frag::sizefmt::c14_format_unit_text', 'format_filesize after the rendering call (verbatim, humansize answered by a stand-in): the 1000-based kilo unit is written KB, binary units are kept, and the flag `s` shortens every unit - KiB, kB/KB, MiB, MB, GiB, GB - to its first letter (8 renderings)', units=['sizefmt'], complete=False, bound='8 concrete renderings'))
OBLIGATIONS.append(ob('C14.format.text.large', 'verif_frag::sizefmt::c14_format_unit_text_large', 'format_filesize after the rendering call (verbatim, humansize answered by a stand-in): s shortens TB / TiB / PB / PiB / EB / EiB to the first letter, without s the unit text is kept, and a rendering without a space is treated alike (13 renderings)', units=['sizefmt'], complete=False, bound='13 concrete renderings'))
CANARIES = [dict(harness=FS + 'canary_filesize_must_fail', units=['filesize']), dict(harness=UM + 'canary_utilmod_must_fail', units=['utilmod']), dict(harness='verif_frag::sizefmt::canary_sizefmt_must_fail', units=['sizefmt'])]
ASSUMPTIONS = ['std: to_ascii_lowercase, replace(" ", ""), ends_with, slicing and str::parse::<f64>/<u64> behave as documented (T2)',
               'letter case: the ladder runs on the lower-cased literal (prologue checked by shape)']
NOT_COVERED = ['fractional literals (f64 parse)', 'Variant::to_int / to_float coercion that calls parse_filesize', 'format_filesize: the specifier regex, humansize rendering, monotonicity and round trip']
HARNESS_TIMEOUT = 1500
