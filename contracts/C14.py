"""C14 - size literals: the unit ladder of parse_filesize."""
from common import *
FS = 'verif_frag::filesize::'
UNITS = ['k', 'kib', 'kb', 'm', 'mib', 'mb', 'g', 'gib', 'gb', 't', 'tib', 'tb', 'b']
OBLIGATIONS = []
for u in UNITS:
    OBLIGATIONS.append(ob(f'C14.ladder.table.{u}', FS + f'c14_table_{u}', f'the documented unit `{u}` has a rung in parse_filesize, is reached first (not shadowed by an earlier rung) and strips exactly len("{u}") characters', units=['filesize']))
    OBLIGATIONS.append(ob(f'C14.ladder.mult.{u}', FS + f'c14_mult_{u}', f'for all integers n < 65536: the rung reached by `<n>{u}` returns n x the documented multiplier', units=['filesize'], complete=False, bound='n < 2^16 (u32 takes ~140 s per rung in CBMC; f64 multiplication is bit-blasted)'))
CANARIES = [dict(harness=FS + 'canary_filesize_must_fail', units=['filesize'])]
ASSUMPTIONS = ['std: to_ascii_lowercase, replace(" ", ""), ends_with, slicing and str::parse::<f64>/<u64> behave as documented (T2)',
               'letter case: the ladder runs on the lower-cased literal (prologue checked by shape)']
NOT_COVERED = ['fractional literals (f64 parse)', 'Variant::to_int / to_float coercion that calls parse_filesize', 'format_filesize (regex + humansize)', 'rendering monotonicity and round trip']
