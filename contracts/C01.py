"""C01 - traversal depth window (arithmetic of the window and the depth arguments of the recursion)."""
from common import *
OBLIGATIONS = [
    ob('C01.gate.report', GW + 'c01_gate_report', 'for all u32 min, depth: entries of a directory at level depth are reported iff min == 0 or depth >= min', units=['gate_report']),
    ob('C01.gate.descend', GW + 'c01_gate_descend', 'for all u32 max, depth: sub-directories at level depth are entered iff max == 0 or depth + 1 <= max', units=['gate_report']),
    ob('C01.window.step', GW + 'c01_window_step', 'induction step of the window lemma over the two gate fragments: at a reached level d an entry is reported iff (min==0 or d>=min) and (max==0 or d<=max); level d+1 is reached iff max==0 or d+1<=max', units=['gate_report']),
    ob('C01.depth.formula', GD + 'c01_depth_formula', 'root_depth == 0 -> (base, depth) == (canonical, 1); root_depth > 0 and canonical >= root_depth -> depth == canonical - root_depth + 1, no u32 wrap', units=['gate_depth']),
    ob('C01.recursion.args', GD + 'c01_recursion_args', 'every recursive self.visit_dir(..) call (dfs recursion and bfs queue drain) passes min_depth, max_depth unchanged and base_depth as the root depth, so that levels are measured from the same root in both modes', units=['gate_depth']),
    ob('C01.roots', 'verif_frag::traversal::c01_per_root', 'per-root set-up of list_search_results (verbatim loop body on a shim world), for all option values and whatever state an earlier root left: the root is traversed once, with its own symlink flag, depth window (levels from this root), traversal mode, archives and ignore options', units=['traversal']),
    ob('C01.ok_to_visit', 'verif_frag::traversal::c01_ok_to_visit', 'ok_to_visit_dir (verbatim body on a shim world), for all inodes: a directory entry is entered iff its own inode was not visited before and it is not a symlink or symlinks are followed; only the entry own inode is recorded', units=['traversal']),
    ob('C01.prologue', 'verif_frag::traversal::c01_prologue', 'prologue of visit_dir (verbatim): a directory is skipped up front iff symlinks are followed and it was already visited, for all depth options', units=['traversal']),
    dict(id='C01.rootopt', engine='V', verus_fn='Parser::parse_root_options', label='C01.rootopt', complete=True, bound=None, units=[], harness='verus:Parser::parse_root_options', tier='quick',
         desc='real parse_root_options, every token vector: an option list made only of depth options (`mindepth N`, `maxdepth N`, `depth N`, any letter case, N = the u32 the word denotes) that ends at the end of the input or at a non-word token yields min_depth / max_depth exactly as written (last one wins, defaults 0 / 0 = unlimited, nothing else set) and leaves the terminating token for the caller'),
    ob('C01.walk.window.bfs', 'verif_frag::walk::c01_walk_window_bfs', 'the WHOLE real visit_dir (verbatim on a scripted six-node, three-level file system), breadth-first: for every mindepth / maxdepth in 0..3 an entry is handed to check_file exactly once iff its level (1 = directly inside the root) lies in the window - nothing else, nothing twice', units=['walk'], complete=False, bound='one scripted tree (6 nodes, 3 levels), all 16 windows'),
    ob('C01.walk.window.dfs', 'verif_frag::walk::c01_walk_window_dfs', 'the same for depth-first traversal', units=['walk'], complete=False, bound='one scripted tree (6 nodes, 3 levels), all 16 windows'),
    ob('C01.walk.order', 'verif_frag::walk::c01_walk_order', 'the whole real visit_dir on the scripted tree: dfs lists the content of a directory right after the directory, bfs level by level', units=['walk'], complete=False, bound='one scripted tree'),
]
CANARIES = [dict(harness='verif_frag::walk::canary_walk_must_fail', units=['walk']), dict(harness=GW + 'canary_gates_must_fail', units=['gate_report']), dict(harness=GD + 'canary_depth_must_fail', units=['gate_depth']), dict(harness='verif_frag::traversal::canary_traversal_must_fail', units=['traversal'])]
ASSUMPTIONS = [
    'skeleton of visit_dir (unverified, T5): entries of a directory at depth d are reported exactly under the report gate and each sub-directory is visited exactly under the descend gate',
    'canonical_depth >= base_depth is no longer needed for panic freedom (saturating subtraction since fix 2072806); the LEVEL of entries behind a followed link is the canonical-depth difference, not the position of the link',
    'u32 machine arithmetic reasoned about bit-precisely; depth < u32::MAX assumed in the descend gate oracle',
]
NOT_COVERED = ['trees other than the scripted one (6 nodes, 3 levels)', 'symlinks listed but not descended, symlink cycles', 'default root, regexp roots', 'calc_depth / canonical_path (std path handling)', 'I/O errors, ignore files']

HARNESS_TIMEOUT = 900
