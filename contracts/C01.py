"""C01 - traversal depth window (arithmetic of the window only)."""
from common import *
OBLIGATIONS = [
    ob('C01.gate.report', GATES + 'c01_gate_report', 'for all u32 min, depth: entries of a directory at level depth are reported iff min == 0 or depth >= min', units=['gates']),
    ob('C01.gate.descend', GATES + 'c01_gate_descend', 'for all u32 max, depth: sub-directories at level depth are entered iff max == 0 or depth + 1 <= max', units=['gates']),
    ob('C01.depth.formula', GATES + 'c01_depth_formula', 'root_depth == 0 -> (base, depth) == (canonical, 1); root_depth > 0 and canonical >= root_depth -> depth == canonical - root_depth + 1, no u32 wrap', units=['gates']),
    ob('C01.window.step', GATES + 'c01_window_step', 'induction step of the window lemma over the two gate fragments: at a reached level d an entry is reported iff (min==0 or d>=min) and (max==0 or d<=max); level d+1 is reached iff max==0 or d+1<=max', units=['gates']),
]
CANARIES = [dict(harness=GATES + 'canary_gates_must_fail', units=['gates'])]
ASSUMPTIONS = [
    'skeleton of visit_dir (unverified, T5): entries of a directory at depth d are reported exactly under the report gate and each sub-directory is visited, with base_depth passed on, exactly under the descend gate',
    'canonical_depth >= base_depth (false when a followed symlink leads above the root): required by C01.depth.formula, not proved',
    'u32 machine arithmetic reasoned about bit-precisely; depth < u32::MAX assumed in the descend gate oracle',
]
NOT_COVERED = ['exactly-once and no-other-row', 'bfs/dfs order and equality of the two result sets', 'symlinks listed but not descended', 'root parsing, default root', 'visited_inodes de-duplication', 'calc_depth / canonical_path (std path handling)']
