"""C16 - scalar functions: string arms of function::get_value on concrete witnesses (bounded)."""
from common import *
SC = 'verif_frag::scalar::'
B = 'concrete witnesses (parsing a symbolic numeric argument string does not terminate in CBMC)'
OBLIGATIONS = [
    ob('C16.substr.basic', SC + 'c16_substr_basic', 'SUBSTR arm (verbatim): 1-based position, optional length, length beyond the end - 5 witnesses', units=['scalar'], complete=False, bound=B),
    ob('C16.substr.negative', SC + 'c16_substr_negative', 'SUBSTR arm: negative position counts from the end; position beyond the end is empty - 4 witnesses', units=['scalar'], complete=False, bound=B),
    ob('C16.substr.illtyped', SC + 'c16_substr_illtyped', 'SUBSTR arm: non-numeric / negative / empty numeric arguments yield an empty value and never panic - 4 witnesses', units=['scalar'], complete=False, bound=B),
    ob('C16.length', SC + 'c16_length', 'LENGTH arm counts characters, not bytes - 3 witnesses', units=['scalar'], complete=False, bound=B),
    ob('C16.coalesce.concat', SC + 'c16_coalesce_concat', 'COALESCE (first non-empty), CONCAT, CONCAT_WS arms - 5 witnesses', units=['scalar'], complete=False, bound=B),
    ob('C16.replace.trim', SC + 'c16_replace_trim', 'REPLACE (all occurrences; missing arguments -> empty value, no panic), TRIM / LTRIM / RTRIM arms - 6 witnesses', units=['scalar'], complete=False, bound=B),
]
OBLIGATIONS.append(ob('C16.compose', 'verif_frag::evalshim::c16_scalar_dispatch', 'get_function_value, scalar branch: F(G(x), a, b) applies F to the value of G(x) and to the values of a and b, each evaluated once, in order', units=['evalshim'], complete=False, bound='1 concrete call with 3 arguments'))
CANARIES = [dict(harness=SC + 'canary_scalar_must_fail', units=['scalar'])]
ASSUMPTIONS = ['std string routines (chars, skip, take, replace, trim, join, parse) executed from their real source by CBMC on the witnesses']
NOT_COVERED = ['all argument values other than the witnesses', 'LOWER/UPPER/INITCAP (Unicode tables), base64, numeric formatting (format!), date functions (chrono)', 'composition through get_function_value', 'POWER/LOG/FORMAT_TIME ill-typed arguments (format!/float formatting in the same arms)']
HARNESS_TIMEOUT = 300
