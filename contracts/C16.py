"""C16 - scalar functions: string arms of function::get_value on concrete witnesses (bounded)."""
from common import *
SC = 'verif_frag::scalar::'
B = 'concrete witnesses (parsing a symbolic numeric argument string does not terminate in CBMC)'
OBLIGATIONS = [
    ob('C16.substr.basic', SC + 'c16_substr_basic', 'SUBSTR arm (verbatim): 1-based position, optional length, length beyond the end - 5 witnesses', units=['scalar'], complete=False, bound=B),
    ob('C16.substr.negative', SC + 'c16_substr_negative', 'SUBSTR arm: negative position counts from the end; position beyond the end is empty - 4 witnesses', units=['scalar'], complete=False, bound=B),
    ob('C16.substr.illtyped', SC + 'c16_substr_illtyped', 'SUBSTR arm: non-numeric / negative / empty numeric arguments yield an empty value and never panic - 4 witnesses', units=['scalar'], complete=False, bound=B),
    ob('C16.length', SC + 'c16_length', 'LENGTH arm counts characters, not bytes - 3 witnesses', units=['scalar'], complete=False, bound=B),
    ob('C16.coalesce.concat', SC + 'c16_coalesce_concat', 'COALESCE (first non-empty), CONCAT, CONCAT_WS arms - 5 witnesses', units=['scalar'], complete=False, bound=B),
    ob('C16.replace.trim', SC + 'c16_replace_trim', 'REPLACE (all occurrences; missing arguments -> empty value, no panic), TRIM / LTRIM / RTRIM arms - 6 witnesses', units=['scalar'], complete=False, bound=B),
]
for _h, _d in [('case', 'LOWER / UPPER arms (verbatim): ASCII, non-ASCII letters, empty - 4 witnesses'), ('initcap', 'INITCAP arm: every word capitalised, rest lower - 2 witnesses'),
               ('abs_least_greatest', 'ABS / LEAST / GREATEST arms: values, the first argument counts, ill-typed first argument -> empty value, ill-typed later argument skipped, all-negative / all-positive / single argument - 12 witnesses'),
               ('sqrt', 'SQRT arm: exact squares, ill-typed -> empty value - 3 witnesses')]:
    OBLIGATIONS.append(ob('C16.' + _h.replace('_', '.'), SC + 'c16_' + _h, _d, units=['scalar'], complete=False, bound=B))
OBLIGATIONS.append(ob('C16.date.parts', SC + 'c16_date_parts', 'YEAR / MONTH / DAY / DOW arms (verbatim, shim calendar value for what parse_datetime returns): for every date the part asked for; DOW is 1 for Sunday .. 7 for Saturday; an argument that is no date gives an empty value', units=['scalar']))
OBLIGATIONS.append(ob('C16.compose', 'verif_frag::evalshim::c16_scalar_dispatch', 'get_function_value, scalar branch: F(G(x), a, b) applies F to the value of G(x) and to the values of a and b, each evaluated once, in order', units=['evalshim'], complete=False, bound='1 concrete call with 3 arguments'))
OBLIGATIONS.append(ob('C16.argument.empty', 'verif_frag::tokenloop::c02_token_loop', 'an empty string argument (`coalesce(\'\', name)`, `concat_ws(\'\', a, b)`) reaches the parser: body of the token collection loop of Parser::parse (same harness as C02.literal.empty)', units=['tokenloop'], complete=False, bound='5 token kinds'))
CANARIES = [dict(harness=SC + 'canary_scalar_must_fail', units=['scalar']), dict(harness='verif_frag::tokenloop::canary_tokenloop_must_fail', units=['tokenloop'])]
ASSUMPTIONS = ['std string routines (chars, skip, take, replace, trim, join, parse) executed from their real source by CBMC on the witnesses']
NOT_COVERED = ['all argument values other than the witnesses', 'TO_BASE64 / FROM_BASE64 (any harness reaching the rbase64 crate crashes the Kani compiler: intrinsics.rs:243, measured), BIN/HEX/OCT (format! with a radix), POWER/LOG/LN/EXP (powf / log / exp are not modelled by CBMC), parse_datetime and chrono behind the date functions', 'composition through get_function_value', 'POWER/LOG/FORMAT_TIME ill-typed arguments (format!/float formatting in the same arms)']
HARNESS_TIMEOUT = 300
