"""C19 - archive search: member enumeration in the whole visit_dir on a scripted file system (bounded); stored member timestamps (complete on a calendar shim)."""
from common import *
W = 'verif_frag::walk::'
OBLIGATIONS = [
    ob('C19.members.bfs', W + 'c19_members_bfs', 'the WHOLE real visit_dir (verbatim on a scripted six-node file system whose node 2 is a zip archive with two members), `archives` on, breadth-first: each member is reported exactly once, right after its archive and in archive order; the ordinary rows are exactly those of the same query without `archives`, in the same order; no error', units=['walk'], complete=False, bound='one scripted tree, one archive with 2 members'),
    ob('C19.members.dfs', W + 'c19_members_dfs', 'the same, depth-first', units=['walk'], complete=False, bound='one scripted tree, one archive with 2 members'),
    ob('C19.members.window', W + 'c19_members_window', 'the same world: an archive outside the depth window contributes no row', units=['walk'], complete=False, bound='1 window'),
    ob('C19.corrupt', W + 'c19_corrupt', 'the same world: an archive that cannot be opened is listed as a file and skipped, an unreadable member is skipped and the next one reported - no abort, no other row lost', units=['walk'], complete=False, bound='2 fault scenarios'),
    ob('C19.limit', W + 'c06_walk_limit_archive', 'the same world, every limit 0..8: members count towards LIMIT like ordinary rows, also when the limit is reached inside an archive (same harness as C06.walk.limit.archive)', units=['walk'], complete=False, bound='limit 0..8'),
    ob('C19.limit.filter', W + 'c06_walk_limit_filter', 'the same world with a WHERE filter rejecting any one entry or member (symbolic), every limit 0..7: members are subject to the same filter and LIMIT as ordinary entries - LIMIT counts matching rows, the result is a prefix of the unlimited filtered traversal (same harness as C06.walk.limit.filter)', units=['walk'], complete=False, bound='one rejected entry, limit 0..7'),
    ob('C19.zipdate', 'verif_frag::zipdate::c19_zipdate', 'the WHOLE real to_local_datetime (verbatim on a calendar shim with a scripted clock): for EVERY current date and time and EVERY stored timestamp naming an existing date (1980..2107, 29 February included) the value has exactly the stored year, month, day, hour, minute and second - it does not depend on the day the search runs, and nothing panics', units=['zipdate']),
    ob('C19.zipdate.total', 'verif_frag::zipdate::c19_zipdate_total', 'the same function: for every current date and ANY stored bit fields (month 0, day 31 in a short month, hour 31 ...) it returns without a panic, so a damaged timestamp does not abort the search', units=['zipdate']),
    ob('C19.mode', 'verif_frag::status::c10_status', 'placeholder', units=['status']),
]
OBLIGATIONS = OBLIGATIONS[:-1]
CANARIES = [dict(harness=W + 'canary_walk_must_fail', units=['walk']), dict(harness='verif_frag::zipdate::canary_zipdate_must_fail', units=['zipdate'])]
ASSUMPTIONS = ['the scripted file system stands for the OS and the zip crate: ZipArchive::new / len / by_index enumerate the members of the archive']
NOT_COVERED = ['the member columns name, size, directory flag, unix mode and how to_file_info reads the timestamp from the zip crate (the conversion of the stored timestamp is C19.zipdate; zip-entry mode decoding is proved under C04)', 'which file names count as archives (is_zip_archive: has_extension is proved under C04, the configured list is not)', 'real, nested or truncated archives']
HARNESS_TIMEOUT = 900
