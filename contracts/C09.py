"""C09 - output formats: per-cell / per-row formatters."""
from common import *
HT = 'output::html::verif_kani::'
FL = 'output::flat::verif_kani::'
OBLIGATIONS = [
    ob('C09.html.escape.char', HT + 'c09_html_escape_char', 'escape_html on every single ASCII character: no raw & < > in the result and it decodes (amp lt gt quot #39) to the character', engine='K', units=['html'], complete=False, bound='one character (complete over ASCII)'),
    ob('C09.html.escape.witnesses', HT + 'c09_html_escape_witnesses', 'escape_html on 4 concrete multi-character values incl. `&amp;`', engine='K', units=['html'], complete=False, bound='4 concrete values'),
    ob('C09.html.cell', HT + 'c09_html_cell', 'template of HtmlFormatter::format_element: <td> + escape_html(value) + </td> (format! replaced by concatenation), 3 concrete values', engine='F', units=['html'], complete=False, bound='3 concrete values'),
    ob('C09.html.frame', HT + 'c09_html_frame', 'header / row / footer tags are the balanced literals; no separator between rows', engine='K', units=['html']),
    ob('C09.flat.tabs', FL + 'c09_flat_tabs', 'tabs: element = value + TAB unless last, row ends with LF, no header/footer', engine='F', units=['flat'], complete=False, bound='concrete values ab and empty'),
    ob('C09.flat.lines', FL + 'c09_flat_lines', 'lines: element = value + LF unless last, row ends with LF', engine='F', units=['flat'], complete=False, bound='concrete values ab and empty'),
    ob('C09.flat.list', FL + 'c09_flat_list', 'list: NUL after every element and row', engine='F', units=['flat'], complete=False, bound='concrete values ab and empty'),
]
OBLIGATIONS.append(ob('C09.row.protocol', 'verif_frag::rowproto::c09_row_protocol', 'ResultsWriter::write_row (verbatim body on a recording shim): row start, each (name, value) once in order, is_last exactly on the last column - also when the last column name occurs earlier (name, size, name) - then row end', units=['rowproto'], complete=False, bound='1 concrete row of 3 columns'))
OBLIGATIONS.append(ob('C09.row.protocol.small', 'verif_frag::rowproto::c09_row_protocol_small', 'same for rows of 0, 1 and 2 (identical) columns', units=['rowproto'], complete=False, bound='3 concrete rows'))
OBLIGATIONS.append(ob('C09.ordered.output', 'verif_frag::rowflow::c09_ordered_output', 'ordered-buffer output loop of list_search_results (verbatim): 3 buffered rows come out in buffer order with exactly 2 separators between them, independently of the match count', units=['rowflow'], complete=False, bound='3 concrete buffered rows'))
OBLIGATIONS.append(ob('C09.wbuf.chunks', 'util::wbuf::verif_kani::c09_wbuf_chunks', 'real WritableBuffer::write: two chunks of up to 2 and 3 arbitrary bytes (valid UTF-8 on their own or not) are both accepted whole and the buffer holds exactly their concatenation', engine='K', units=['wbuf'], complete=False, bound='2 chunks of <= 2 and <= 3 symbolic bytes'))
OBLIGATIONS.append(ob('C09.wbuf.split', 'util::wbuf::verif_kani::c09_wbuf_split_char', 'real WritableBuffer: a 3-byte character handed over in two pieces comes out whole in the rendered text', engine='K', units=['wbuf'], complete=False, bound='1 witness'))
CANARIES = [dict(harness='util::wbuf::verif_kani::canary_wbuf_must_fail', units=['wbuf']), dict(harness=HT + 'canary_html_must_fail', units=['html']), dict(harness=FL + 'canary_flat_must_fail', units=['flat'])]
ASSUMPTIONS = ['ASCII values only in the harnesses (multi-byte UTF-8 is copied by String::push in the real code; not exercised)']
NOT_COVERED = ['JSON / CSV cell encoding (serde_json, csv crates)', 'the separator protocol between rows in the three searcher paths', 'equality of decoded content across formats', 'values longer than the stated bounds']
HARNESS_TIMEOUT = 300
