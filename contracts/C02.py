"""C02 - WHERE comparisons."""
from common import *
OBLIGATIONS = [
    ob('C02.cmp.int', CMP + 'c02_cmp_int', 'for all 8 comparison ops and all i64 pairs the Int arm of conforms equals the mathematical relation (field OP literal, operands not swapped)', units=['cmp']),
    ob('C02.cmp.float', CMP + 'c02_cmp_float', 'same for the Float arm, all non-NaN f64 pairs (IEEE semantics)', units=['cmp']),
    ob('C02.cmp.bool', CMP + 'c02_cmp_bool', 'same for the Bool arm (= != === !== only; ordering of booleans is outside the property and CBMC mis-handles it)', units=['cmp']),
    ob('C02.cmp.datetime', CMP + 'c13_cmp_datetime', 'date arm: interval semantics (shared with C13)', units=['cmp']),
    ob('C02.between.inclusive', BETW + 'c02_between_inclusive', 'for all i64 x, a, b: the desugaring of `x between a and b`, evaluated through the real int arm, is a <= x <= b (inclusive at both ends)', units=['cmp', 'between']),
]
OBLIGATIONS.append(dict(id='C02.quoted.literal', engine='V', verus_fn='Parser::parse_func_scalar', label='C02.quoted.literal', complete=True, bound=None, units=[], harness='verus:Parser::parse_func_scalar', tier='quick',
    desc='for every token vector and cursor: if the operand token is a quoted literal (Lexem::String) the real parse_func_scalar returns Expr::value of exactly that text - never a column or a function - and consumes one token'))
OBLIGATIONS.append(ob('C02.literal.coercion', 'function::verif_kani::c02_literal_units', 'the real Variant::to_int on literals with a size unit (2k, 1kb) and on a non-number (3 witnesses)', engine='K', units=['variant'], complete=False, bound='3 concrete literals'))
OBLIGATIONS.append(ob('C02.bool.literal', 'function::verif_kani::c02_bool_literals', 'the real Variant::to_bool on true/false/1/0/yes/no in several casings (9 witnesses)', engine='K', units=['variant'], complete=False, bound='9 concrete literals'))
OBLIGATIONS.append(ob('C02.operands', 'verif_frag::evalshim::c02_operands', 'operand evaluation of a comparison in conforms (verbatim statements on a shim world): field value from the LEFT expression, literal from the RIGHT, each evaluated once with its own empty cache map', units=['evalshim'], complete=False, bound='1 concrete comparison'))
for _n in ['eq', 'ne', 'eeq', 'ene', 'gt', 'gte', 'lt', 'lte', 'rx', 'notrx', 'like', 'notlike', 'between']:
    OBLIGATIONS.append(ob(f'C02.op.table.{_n}', OPS + f'c11_op_{_n}', f'Op::from maps every documented spelling of the operator `{_n}` to that operator (same harness as C11.alias.op.{_n})', engine='K', units=['operators']))
OBLIGATIONS.append(ob('C02.op.negation', OPS + 'c03_negate_contract', 'each negative operator is the documented complement of its positive counterpart: contract of Op::negate (same as C03.negate.pairs)', engine='K', units=['operators'], twin=OPS + 't03_negate_pairs'))
OBLIGATIONS.append(ob('C02.cmp.int.fractional', CMP + 'c02_cmp_int_fractional', 'Int arm of conforms with a right-hand value k + 0.5 (all i32 k) against all i32 column values: compared as real numbers for all 8 operators, never truncated', units=['cmp'], complete=False, bound='column value and k in i32, fraction .5'))
OBLIGATIONS.append(ob('C02.cmp.string', 'verif_frag::strarm::c12_arm_plain', 'String arm of conforms (whole block verbatim on a shim world): a text column against a literal without wildcard compares by text equality (`=`), `!=` is the complement (same harness as C12.arm.plain)', units=['strarm'], complete=False, bound='concrete witness texts'))
OBLIGATIONS.append(ob('C02.cmp.string.pattern', 'verif_frag::strarm::c12_arm_glob', 'String arm of conforms: a text column against a wildcard literal compares by pattern (same harness as C12.arm.glob)', units=['strarm'], complete=False, bound='concrete witness texts'))
OBLIGATIONS.append(ob('C02.literal.empty', 'verif_frag::tokenloop::c02_token_loop', 'Parser::parse, body of the token collection loop (verbatim): every token produced by the lexer is appended to the parser input - an empty quoted literal (`ext = \'\'`) is a value and is not dropped', units=['tokenloop'], complete=False, bound='5 token kinds'))
OBLIGATIONS.append(dict(id='C02.lexer.quoted', engine='V', verus_fn='Lexer::next_lexem', verus_file='lexer', label='C02.lexer.quoted', complete=True, bound=None, units=[], harness='verus:Lexer::next_lexem', tier='quick',
    desc='real Lexer::next_lexem, every input: a token that starts at a quote character (single, double or backtick) is returned as a text literal token (Lexem::String), never as a word / keyword / operator - whatever it spells and however it ends; a comma under the cursor is a Comma token'))
CANARIES = [dict(harness='verif_frag::tokenloop::canary_tokenloop_must_fail', units=['tokenloop']), dict(harness='verif_frag::strarm::canary_strarm_must_fail', units=['strarm']), dict(harness=CMP + 'canary_cmp_must_fail', units=['cmp'])]
ASSUMPTIONS = ['float arm: stated for non-NaN operands', 'date arm: start <= finish']
NOT_COVERED = ['get_field_value: which attribute is compared', 'literal -> number coercion (Variant::to_int / to_float, parse_filesize as a whole)', 'string arm (regex)', 'type dispatch on field_value.get_type()']
