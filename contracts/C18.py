"""C18 - following symlinks: the whole visit_dir + ok_to_visit_dir on a scripted file system with links (bounded)."""
from common import *
W = 'verif_frag::walk18::'
OBLIGATIONS = [
    ob('C18.walk.follow.bfs', W + 'c18_walk_follow_bfs', 'the WHOLE real visit_dir and ok_to_visit_dir (verbatim on a scripted 13-node file system), `symlinks` on, breadth-first: the search goes through a link with an absolute target to an ANCESTOR (a cycle) and a link with a RELATIVE target to a directory outside - and less deep than - the root; a link to the search root itself is not replayed; a link to a regular file and a dangling link are just listed; every entry under the root or behind a link is listed exactly once, the ancestor is not replayed, the traversal terminates (unwinding assertions) and no error is counted', units=['walk'], complete=False, bound='one scripted tree (13 nodes: 3 levels, 5 links)'),
    ob('C18.walk.follow.dfs', W + 'c18_walk_follow_dfs', 'the same, depth-first', units=['walk'], complete=False, bound='one scripted tree (13 nodes: 3 levels, 5 links)'),
    ob('C18.walk.nofollow', W + 'c18_walk_nofollow', 'the same world without the option: links are listed once, no row comes from behind a link, no error', units=['walk'], complete=False, bound='one scripted tree'),
    ob('C18.ok_to_visit', 'verif_frag::traversal::c01_ok_to_visit', 'ok_to_visit_dir (verbatim on a shim world): a directory entry is entered iff its own inode was not seen before and it is not a link or links are followed; only its own inode is recorded (same harness as C01.ok_to_visit)', units=['traversal']),
]
CANARIES = [dict(harness=W + 'canary_walk18_must_fail', units=['walk']), dict(harness='verif_frag::traversal::canary_traversal_must_fail', units=['traversal'])]
ASSUMPTIONS = ['the scripted file system stands for the OS: read_dir lists children in a fixed order, read_link returns the stored target (absolute, or relative to the directory of the link), canonicalize succeeds for existing nodes']
NOT_COVERED = ['other link graphs (mutual links, chains, self-links)', 'the OS itself; `.` or relative roots', 'depth windows behind links (the level of what is behind a link is computed from its canonical depth, not from the position of the link)']
HARNESS_TIMEOUT = 900
