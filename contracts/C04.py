"""C04 - column values: mode decoders (DESIGN.md section 5, C04)."""
M = 'mode::verif_kani::'


def _o(id, h, desc, complete=True, bound=None, twin=None, engine='K', units=('mode',), tier='quick'):
    return dict(id=id, engine=engine, harness=h, twin=twin or h, complete=complete, bound=bound, desc=desc,
                units=list(units), tier=tier)


OBLIGATIONS = []
for col, short, bit in [('user_read', 'user_read', '0o400'), ('user_write', 'user_write', '0o200'),
                        ('user_exec', 'user_exec', '0o100'), ('group_read', 'group_read', '0o040'),
                        ('group_write', 'group_write', '0o020'), ('group_exec', 'group_exec', '0o010'),
                        ('other_read', 'other_read', '0o004'), ('other_write', 'other_write', '0o002'),
                        ('other_exec', 'other_exec', '0o001'), ('suid', 'suid', '0o4000'), ('sgid', 'sgid', '0o2000'),
                        ('sticky', 'sticky', '0o1000')]:
    OBLIGATIONS.append(_o(f'C04.perm.bits.{col}', M + 'c04_' + short,
                          f'contract of mode_{col}: for all u32 m, result == (m & {bit} != 0)', twin=M + 't04_' + short))
for col, mask in [('user_all', '0o700'), ('group_all', '0o070'), ('other_all', '0o007')]:
    OBLIGATIONS.append(_o(f'C04.perm.bits.{col}', M + 'c04_' + col,
                          f'contract of mode_{col}: result == (m & {mask} == {mask}); callees replaced by their '
                          f'verified contracts (stub_verified)', twin=M + 't04_' + col))
for col, short, t in [('is_pipe', 'is_pipe', 'S_IFIFO'), ('is_char', 'is_char', 'S_IFCHR'),
                      ('is_block', 'is_block', 'S_IFBLK'), ('is_socket', 'is_socket', 'S_IFSOCK'),
                      ('is_dir(mode)', 'is_dir', 'S_IFDIR'), ('is_symlink(mode)', 'is_link', 'S_IFLNK')]:
    OBLIGATIONS.append(_o(f'C04.type.{short}', M + 'c04_' + short,
                          f'contract of the mode predicate behind {col}: for all u32 m whose S_IFMT field is one of the '
                          f'7 POSIX types, result == (m & S_IFMT == {t})', twin=M + 't04_' + short))
OBLIGATIONS.append(_o('C04.type.exclusive', M + 'c04_type_exclusive',
                      'lemma over the six leaf contracts: exactly one of pipe/char/block/socket/dir/link/regular holds '
                      'and it agrees with the first character of the mode string', twin=M + 't04_type_exclusive'))
OBLIGATIONS.append(_o('C04.mode.string', M + 'c04_mode_string',
                      'postcondition of get_mode_unix: 10 characters, char 0 in {l b c s p d -} per type, chars 1-9 per '
                      '`ls -l` incl. s S t T, for every u32 with a valid type (proved on the real bodies of the 18 '
                      'predicates it calls)', twin=M + 'c04_mode_string'))
OBLIGATIONS.append(_o('C04.mode.string.format_mode', M + 'c04_format_mode',
                      'format_mode (entry point used for zip members) returns the same string'))
for w in ['user_read', 'user_write', 'user_exec', 'user_all', 'group_read', 'group_write', 'group_exec', 'group_all',
          'other_read', 'other_write', 'other_exec', 'other_all', 'suid', 'sgid', 'is_pipe', 'is_char', 'is_block',
          'is_socket']:
    OBLIGATIONS.append(_o(f'C04.meta.wiring.{w}', M + 'w04_' + w,
                          f'the &Metadata wrapper behind column {w} returns the mode predicate of st_mode (and false when '
                          f'no unix mode is available)'))

CK = 'util::capabilities::verif_kani::'
NU = 'util::verif_kani_names::'
OBLIGATIONS.append(_o('C04.caps.names', CK + 'c04_caps_names', 'table of parse_capabilities (every check_cap! invocation, extracted each run): bit k names capability k of linux/capability.h for k = 0..40 (cap_chown .. cap_checkpoint_restore)', engine='F', units=('caps',)))
OBLIGATIONS.append(_o('C04.caps.layout', CK + 'c04_caps_layout', 'vfs_cap_data layout: permitted / inheritable words at bytes 4..8, 8..12, 12..16, 16..20; effective flag = flags byte == 1', engine='F', units=('caps',)))
OBLIGATIONS.append(_o('C04.caps.flags', CK + 'c04_caps_flags', 'the real check_capability, for all u32 permitted / inheritable words and every single-bit capability: "ip" / "p" / "i" / no entry per set bit', units=('caps',)))
OBLIGATIONS.append(_o('C04.extclass', NU + 'c04_extclass', 'the real has_extension: for every 4-character printable ASCII name and the list [.a, .bc]: true exactly when the lower-cased name ends with a listed extension', complete=False, bound='name of 4 ASCII characters, 2 extensions', units=('nameutils',)))
OBLIGATIONS.append(_o('C04.hidden', NU + 'c04_hidden', 'the real is_hidden (unix, not in an archive): true exactly when the name starts with a dot, for every 2-character printable ASCII name', complete=False, bound='name of 2 ASCII characters', units=('nameutils',)))
OBLIGATIONS.append(_o('C04.linecount', 'verif_frag::linecount::c17_linecount', 'the WHOLE real util::get_line_count (verbatim on a scripted file of up to three chunks): a readable file has exactly the number of newline bytes of all its chunks, a file that cannot be opened or read to its end has no count (same harness as C17.linecount)', engine='F', complete=False, bound='files of <= 3 chunks of 1..3 symbolic bytes', units=('linecount',)))
OBLIGATIONS.append(_o('C04.shebang', 'verif_frag::linecount::c17_shebang', 'the WHOLE real util::is_shebang (verbatim on the same scripted file): true exactly when the first two bytes can be read and are `#!` (same harness as C17.shebang)', engine='F', complete=False, bound='files of <= 3 chunks of 1..3 symbolic bytes', units=('linecount',)))
OBLIGATIONS.append(_o('C04.cache.clear', 'searcher::verif_kani_fms::c17_fms_clear', 'contract of the real FileMetadataState::clear (per-entry cache reset at the top of check_file): for every combination of the six already-looked-up flags nothing counts as looked up and nothing is cached afterwards - a column value is never the previous entry value (same harness as C17.cache.clear)', units=('fms',)))
CANARIES = [dict(harness=M + 'canary_mode_must_fail', units=['mode']), dict(harness=CK + 'canary_caps_must_fail', units=['caps']), dict(harness=NU + 'canary_names_must_fail', units=['nameutils']), dict(harness='verif_frag::linecount::canary_linecount_must_fail', units=['linecount']), dict(harness='searcher::verif_kani_fms::canary_fms_must_fail', units=['fms'])]

ASSUMPTIONS = [
    'st_mode delivered by lstat / stored in the zip entry is the value passed to the predicates (T4); in the wrapper '
    'harnesses get_mode_from_boxed_unix_int is stubbed by a symbolic Option<u32> and the Metadata value is zeroed memory '
    'that is never read',
    'type predicates are specified only for the 7 POSIX file types (requires valid_type); other S_IFMT values are '
    'outside the property',
    'machine arithmetic: u32 bit operations, reasoned about bit-precisely by CBMC (nothing treated as mathematical)',
]
NOT_COVERED = [
    'that the metadata is the entry own lstat; size, uid/gid, owner names, inode, links, blocks, mtime, xattrs (T4)',
    'is_file / is_dir / is_symlink of real entries (std FileType, trusted)',
    'name/path/dir/abspath decomposition; digests and CONTAINS (I/O, format!, regex); line_count / is_shebang only on the scripted file, not over the OS',
    'which extension list a class column uses (Config lookup), configuration override of the extension lists',
]
