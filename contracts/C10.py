"""C10 - totality: exit status mapping (F); parser panic-freedom (V) is added by the Verus engine."""
from common import *
OBLIGATIONS = [
    ob('C10.status', 'verif_frag::status::c10_status', 'for all i32 error counts: exit status is 0 iff no error else 1; a parse error maps to 2', units=['status']),
]
CANARIES = []
ASSUMPTIONS = []
NOT_COVERED = []
