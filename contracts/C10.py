"""C10 - totality: exit status mapping (F); parser panic-freedom (V) is added by the Verus engine."""
from common import *
OBLIGATIONS = [
    ob('C10.status', 'verif_frag::status::c10_status', 'for all i32 error counts: exit status is 0 iff no error else 1; a parse error maps to 2', units=['status']),
]
OBLIGATIONS.append(ob('C10.orderby.position.rejected', 'verif_frag::orderby::c05_positional', 'an ORDER BY position outside 1..=|select list| (0, too large) is a parse error, never a silently substituted column (positional arm of parse_order_by, |columns| <= 3, every usize position)', units=['orderby_arms'], complete=False, bound='select list of <= 3 columns'))
OBLIGATIONS.append(ob('C10.orderby.desc.rejected', 'verif_frag::orderby::c05_desc', 'a DESC that follows no key is a parse error (DESC arm of parse_order_by)', units=['orderby_arms'], complete=False, bound='<= 3 keys'))
PARSER_FNS = ['next_lexem', 'drop_lexem', 'there_are_remaining_lexems', 'parse_where', 'parse_expr', 'parse_and',
              'parse_cond', 'parse_add_sub', 'parse_mul_div', 'parse_paren', 'parse_func_scalar', 'parse_function',
              'parse_group_by', 'parse_order_by', 'parse_limit', 'parse_output_format', 'negate_expr_op']
for f in PARSER_FNS:
    OBLIGATIONS.append(dict(id=f'C10.parser.nopanic.{f}', engine='V', verus_fn='Parser::' + f, complete=True, bound=None, units=[],
                            desc=f'Parser::{f} (real body, extracted verbatim): no unwrap on None/Err, no index out of range, no usize '
                                 f'underflow/overflow, for every token vector and cursor; callees by contract (cursor frame, Ok => Some)',
                            harness='verus:Parser::' + f, tier='quick'))
CANARIES = []
ASSUMPTIONS = ['termination is not proved (exec_allows_no_decreases_clause)']
NOT_COVERED = ['parse_fields, parse_roots, parse_root_options, Parser::parse, the lexer (not under contract)', 'termination / no hang', 'evaluator-side literal errors other than booleans (regex, dates)', 'process-level behaviour']
