"""C10 - totality: exit status mapping (F); parser panic-freedom (V) is added by the Verus engine."""
from common import *
OBLIGATIONS = [
    ob('C10.status', 'verif_frag::status::c10_status', 'for all i32 error counts: exit status is 0 iff no error else 1; a parse error maps to 2', units=['status']),
]
OBLIGATIONS.append(ob('C10.orderby.position.rejected', 'verif_frag::orderby::c05_positional', 'an ORDER BY position outside 1..=|select list| (0, too large) is a parse error, never a silently substituted column (positional arm of parse_order_by, |columns| <= 3, every usize position)', units=['orderby_arms'], complete=False, bound='select list of <= 3 columns'))
OBLIGATIONS.append(ob('C10.orderby.desc.rejected', 'verif_frag::orderby::c05_desc', 'a DESC that follows no key is a parse error (DESC arm of parse_order_by)', units=['orderby_arms'], complete=False, bound='<= 3 keys'))
PARSER_FNS = ['next_lexem', 'drop_lexem', 'there_are_remaining_lexems', 'parse_where', 'parse_expr', 'parse_and',
              'parse_cond', 'parse_add_sub', 'parse_mul_div', 'parse_paren', 'parse_func_scalar', 'parse_function',
              'parse_group_by', 'parse_order_by', 'parse_limit', 'parse_output_format', 'negate_expr_op', 'parse_root_options', 'parse_fields']
for f in PARSER_FNS:
    OBLIGATIONS.append(dict(id=f'C10.parser.nopanic.{f}', engine='V', verus_fn='Parser::' + f, complete=True, bound=None, units=[],
                            desc=f'Parser::{f} (real body, extracted verbatim): no unwrap on None/Err, no index out of range, no usize '
                                 f'underflow/overflow, and TERMINATION (decreases: tokens left, then recursion level; every loop consumes a token), '
                                 f'for every token vector and cursor; callees by contract (cursor frame, Ok => Some, Ok => progress)',
                            harness='verus:Parser::' + f, tier='quick'))
OBLIGATIONS.append(ob('C10.date.range', 'verif_frag::dateprecision::c13_precision', 'time-of-day block of parse_datetime (verbatim): a literal with day / hour / minute / second precision yields start = the given fields padded with 0 and finish = padded with 23:59:59 (closed interval it covers); a time of day outside 00:00:00..23:59:59 is rejected before chrono is called (no unwrap on None); for all captured values < 100', units=['dateprecision']))
OBLIGATIONS.append(ob('C10.calc.total', 'verif_frag::calc::c15_calc_total', 'evaluator arithmetic does not panic on zero or fractional divisors for / and % (same harness as C15.calc.total)', units=['cmp', 'calc'], complete=False, bound='5 concrete operand pairs'))
OBLIGATIONS.append(dict(id='C10.lexer.nopanic.next_lexem', engine='V', verus_fn='Lexer::next_lexem', verus_file='lexer', label=None, complete=True, bound=None, units=[], harness='verus:Lexer::next_lexem', tier='quick',
    desc='real Lexer::next_lexem (extracted verbatim), every argument vector and every lexer state reachable from Lexer::new: no panic (unwrap, usize / isize arithmetic on the cursors), the loop and the `asc` recursion terminate (decreases: parts left, characters left in the part), and every token returned consumed input - so the token loop of Parser::parse terminates'))
OBLIGATIONS.append(dict(id='C10.lexer.nopanic.new', engine='V', verus_fn='Lexer::new', verus_file='lexer', label=None, complete=True, bound=None, units=[], harness='verus:Lexer::new', tier='quick',
    desc='real Lexer::new establishes the cursor invariant next_lexem requires (for every argument vector)'))
OBLIGATIONS.append(dict(id='C10.format.parse', engine='V', verus_fn='Parser::parse_output_format', label='C10.format.parse', complete=True, bound=None, units=[], harness='verus:Parser::parse_output_format', tier='quick',
    desc='real parse_output_format, every token vector: without INTO the format is the default (tabs) and nothing is consumed; `into W` is the format the word W denotes or an error (an unknown format name is rejected, never replaced by a default); INTO followed by anything else is an error'))
OBLIGATIONS.append(ob('C10.date.calendar', 'verif_frag::dateprecision::c10_date_calendar', 'calendar part of parse_datetime (everything after the time-of-day range check, verbatim, on a shim calendar): for every year 0..9999 and every 1-2 digit month / day a date that is not in the calendar (month 13, 30 February, day 0) yields an error and never a panic; every calendar date is accepted', units=['dateprecision']))
OBLIGATIONS.append(ob('C10.clause.sequence', 'verif_frag::parsetop::c10_clause_sequence', 'Parser::parse after the token loop (verbatim on a shim Parser with scripted clause parsers), all outcomes: an error in any clause or a token left after the last clause yields Err and no Query; otherwise each clause result lands in its own Query field, the clauses run in the documented order, roots_parsed / where_parsed are set before the clauses that read them, and there is always a root (in front of WHERE, else after the other clauses, else the default root with the stand-alone options)', units=['parsetop']))
CANARIES = [dict(harness='verif_frag::parsetop::canary_parsetop_must_fail', units=['parsetop']), ]
ASSUMPTIONS = ['termination is proved for the 19 parser methods under contract only', 'is_root_option_keyword is trusted (external_body: string prefix tests, total)']
NOT_COVERED = ['parse_roots and Parser::parse (not under contract; the token loop of Parser::parse terminates because every token consumes input - proved for the lexer, the loop itself is not in the verified text)', 'looks_like_date / looks_like_expression inside the lexer (regex, closures: external stubs)', 'termination of parse_roots and of the search itself', 'evaluator-side literal errors other than booleans (regex, dates)', 'process-level behaviour']
