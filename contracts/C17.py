"""C17 - fault isolation: the traversal part, in the whole visit_dir on a scripted file system (bounded)."""
from common import *
W = 'verif_frag::walk::'
OBLIGATIONS = [
    ob('C17.unlistable.bfs', W + 'c17_unlistable_bfs', 'the WHOLE real visit_dir (verbatim on a scripted six-node file system), breadth-first: a directory that cannot be listed costs only its own content - every entry outside it (and the directory itself) is still a row, exactly one error is counted and one diagnostic names the failing path; with no fault there is no error and no diagnostic', units=['walk'], complete=False, bound='one scripted tree, one unlistable directory'),
    ob('C17.unlistable.dfs', W + 'c17_unlistable_dfs', 'the same, depth-first', units=['walk'], complete=False, bound='one scripted tree, one unlistable directory'),
    ob('C17.bad_entry', W + 'c17_bad_entry', 'the same world: an unreadable directory entry is reported once against its directory and every readable entry is still a row; an entry whose type cannot be determined is still a row and only what is below it is lost, with one diagnostic', units=['walk'], complete=False, bound='2 fault scenarios'),
    ob('C17.closed_pipe.bfs', W + 'c17_closed_pipe_bfs', 'the same world, for every point 0..5 at which the consumer closes the pipe breadth-first: exactly the rows written before remain, no error is counted, nothing panics (unwinding assertions hold)', units=['walk'], complete=False, bound='one scripted tree, close after 0..5 rows'),
    ob('C17.closed_pipe.dfs', W + 'c17_closed_pipe_dfs', 'the same, depth-first', units=['walk'], complete=False, bound='one scripted tree, close after 0..5 rows'),
    ob('C17.linecount', 'verif_frag::linecount::c17_linecount', 'the WHOLE real util::get_line_count (verbatim on a scripted file of up to three chunks): a file that cannot be opened, or whose read fails at any point - first chunk, a later chunk, the end-of-file probe - has NO line count (the column is empty), never a partial one; a readable file has exactly the number of line feeds of all its chunks', units=['linecount'], complete=False, bound='files of <= 3 chunks of 1..3 symbolic bytes'),
    ob('C17.status', 'verif_frag::status::c10_status', 'error_count -> exit status: 0 iff no error was counted, else 1 (same harness as C10.status)', units=['status']),
]
CANARIES = [dict(harness=W + 'canary_walk_must_fail', units=['walk']), dict(harness='verif_frag::linecount::canary_linecount_must_fail', units=['linecount'])]
ASSUMPTIONS = ['the scripted file system stands for the OS: read_dir / the directory iterator / file_type fail where the harness says so; check_file reports a closed pipe by returning Ok(false)']
NOT_COVERED = ['unreadable file content for the hash, contains and is_shebang columns, and how get_field_value turns a missing line count into an empty cell; dangling links', 'the text of the diagnostics on standard error', 'the closed-pipe handling inside check_file / the output loops themselves (the ordered-output loop is proved under C09)']
HARNESS_TIMEOUT = 900
