"""Contracts spliced into the real parser functions for Engine V (Verus). Keys are function names of
`impl Parser` (or `Type::fn`). Clause text is Verus syntax. Labels in /*...*/ tie a clause to an obligation."""

NODEC = '#[verifier::exec_allows_no_decreases_clause]'
FRAME = ['final(self).lexems == old(self).lexems', 'final(self).index >= old(self).index']
SOME = 'r matches Ok(o) ==> o is Some'
LOOPINV = ['self.lexems == old(self).lexems', 'self.index >= old(self).index']


def parse_fn(extra_ens=(), loops=None, **kw):
    d = dict(ret='r', ensures=FRAME + [SOME] + list(extra_ens), attrs=[NODEC])
    if loops:
        d['loops'] = loops
    d.update(kw)
    return d


SPECS = {
    # ---- trusted leaves (bodies not verified; total functions without preconditions) ----
    'Op::from': dict(external_body=True),
    'ArithmeticOp::from': dict(external_body=True),
    'OutputFormat::from': dict(external_body=True),
    'Field::is_boolean_field': dict(external_body=True),
    'Function::is_boolean_function': dict(external_body=True),
    '__field_from_str': '    #[verifier::external_body]\n    pub fn from_str(s: &str) -> Result<Field, String> { unimplemented!() }\n',
    '__function_from_str': '    #[verifier::external_body]\n    pub fn from_str(s: &str) -> Result<Function, String> { unimplemented!() }\n',
    '__expr_clone': ('impl Clone for Expr {\n    #[verifier::external_body]\n'
                     '    fn clone(&self) -> (r: Expr) ensures r == *self { unimplemented!() }\n}\n'
                     'impl Clone for Lexem {\n    #[verifier::external_body]\n'
                     '    fn clone(&self) -> (r: Lexem) ensures r == *self { unimplemented!() }\n}\n'),

    'Op::negate': dict(ret='r', ensures=['r == spec_negate(op)']),
    'Op::from_with_not': dict(ret='r'),

    # ---- cursor primitives ----
    'next_lexem': dict(ret='r', attrs=[NODEC],
                       ensures=['final(self).lexems == old(self).lexems',
                                'final(self).index == old(self).index + 1',
                                'r == (if old(self).index < old(self).lexems.len() { Some(old(self).lexems[old(self).index as int]) } else { None::<Lexem> })'],
                       proofs={r'let\s+lexem\s*=\s*self\.lexems\.get': 'proof { assume(self.index < usize::MAX); /* A1 */ }'}),
    'drop_lexem': dict(attrs=[NODEC], requires=['old(self).index > 0'],
                       ensures=['final(self).lexems == old(self).lexems', 'final(self).index == old(self).index - 1']),
    'there_are_remaining_lexems': dict(ret='r', attrs=[NODEC], ensures=FRAME),

    # ---- recursive descent ----
    'parse_where': dict(ret='r', attrs=[NODEC], ensures=FRAME),
    'parse_expr': parse_fn(loops={0: dict(invariant=LOOPINV + ['left is Some'])}),
    'parse_and': parse_fn(loops={0: dict(invariant=LOOPINV + ['left is Some'])}),
    'parse_cond': parse_fn(loops={0: dict(invariant=LOOPINV)}),
    'parse_add_sub': parse_fn(loops={0: dict(invariant=LOOPINV + ['left is Some'])}),
    'parse_mul_div': parse_fn(loops={0: dict(invariant=LOOPINV + ['left is Some'])}),
    'parse_paren': parse_fn(),
    'parse_func_scalar': parse_fn(),
    'parse_function': dict(ret='r', attrs=[NODEC], ensures=FRAME, loops={0: dict(invariant=LOOPINV)}, guard_to_if=True),
    'parse_group_by': dict(ret='r', attrs=[NODEC], ensures=FRAME, loops={0: dict(invariant=LOOPINV)}),
    'parse_order_by': dict(ret='r', attrs=[NODEC], ensures=FRAME, loops={0: dict(invariant=LOOPINV)}),
    'parse_limit': dict(ret='r', attrs=[NODEC], ensures=FRAME),
    'parse_output_format': dict(ret='r', attrs=[NODEC], ensures=FRAME),
    'negate_expr_op': dict(ret='r', attrs=[NODEC], rewrites=[('let &Some(op) = &expr.op', 'let Some(op) = expr.op')]),
}

EXTRA = '''
// canary: must FAIL (vacuity / machinery guard)
fn verif_canary_must_fail(x: u8) -> (r: u8)
    ensures r == 255,
{ x }

pub open spec fn spec_negate(op: Op) -> Op {
    match op {
        Op::Eq => Op::Ne, Op::Ne => Op::Eq, Op::Eeq => Op::Ene, Op::Ene => Op::Eeq,
        Op::Gt => Op::Lte, Op::Lte => Op::Gt, Op::Lt => Op::Gte, Op::Gte => Op::Lt,
        Op::Rx => Op::NotRx, Op::NotRx => Op::Rx, Op::Like => Op::NotLike, Op::NotLike => Op::Like,
        Op::Between => Op::NotBetween, Op::NotBetween => Op::Between,
    }
}
'''
