"""Contracts spliced into the real parser functions for Engine V (Verus). Keys are function names of
`impl Parser` (or `Type::fn`). Clause text is Verus syntax. Labels in /*...*/ tie a clause to an obligation."""

NODEC = '#[verifier::exec_allows_no_decreases_clause]'
FRAME = ['final(self).lexems == old(self).lexems', 'final(self).index >= old(self).index']
SOME = 'r matches Ok(o) ==> o is Some'
LOOPINV = ['self.lexems == old(self).lexems', 'self.index >= old(self).index']


def parse_fn(extra_ens=(), loops=None, **kw):
    d = dict(ret='r', ensures=FRAME + [SOME] + list(extra_ens), attrs=[NODEC])
    if loops:
        d['loops'] = loops
    d.update(kw)
    return d


SPECS = {
    # ---- trusted leaves (bodies not verified; total functions without preconditions) ----
    # the operator a spelling denotes: uninterpreted here (the alias table is proved by K: C11.alias.op.*)
    'Op::from': dict(external_body=True, ret='r', ensures=['r == spec_op_from(text@)']),
    'ArithmeticOp::from': dict(external_body=True),
    # the format a name denotes: uninterpreted here (the name table is proved by K: C11.alias.format.*)
    'OutputFormat::from': dict(external_body=True, ret='r', ensures=['r == spec_format_from(s@)']),
    'Field::is_boolean_field': dict(external_body=True),
    'Function::is_boolean_function': dict(external_body=True),
    # classification tables: trusted here as uninterpreted predicates (the numeric / date tables of Field are proved over the whole enum by K: C05.numeric.classification)
    'Field::is_numeric_field': dict(external_body=True, ret='r', ensures=['r == spec_numeric_field(*self)']),
    'Field::is_datetime_field': dict(external_body=True, ret='r', ensures=['r == spec_datetime_field(*self)']),
    'Function::is_numeric_function': dict(external_body=True, ret='r', ensures=['r == spec_numeric_fn(*self)']),
    'Function::is_aggregate_function': dict(external_body=True, ret='r', ensures=['r == spec_agg_fn(*self)']),
    # C07: an aggregate anywhere in a column expression (operands, function argument, further arguments) makes the query an aggregate query
    'Expr::has_aggregate_function': dict(ret='r', ensures=['/*C07.aggregate.detect*/ r == spec_has_agg(*self)'], decreases='*self',
        loops={0: dict(iter='it', invariant=['forall|j: int| 0 <= j < it.index@ ==> !spec_has_agg(#[trigger] args@[j])', 'self.args == Some(*args)'])},
        proofs={r'if\s+arg\.has_aggregate_function\(\)': 'proof { broadcast use vstd::std_specs::vec::axiom_vec_index_decreases; '
                'assert(*arg == args@[it.index@ as int]); assert(decreases_to!(*args => args@[it.index@ as int])); '
                'assert(decreases_to!(*self => self.args)); assert(decreases_to!(self.args => self.args->Some_0)); assert(decreases_to!(*self => *arg)); '
                'if spec_has_agg(self.args->Some_0@[it.index@ as int]) { assert(spec_has_agg(*self)); } }'}),
    # C05: a key expression is numeric when a numeric column or function occurs in it - on either side of an operator
    'Expr::contains_numeric': dict(ret='r', ensures=['/*C05.key.numeric.detect*/ r == spec_contains_numeric(*self)']),
    'Expr::contains_numeric_field': dict(ret='r', ensures=['/*C05.key.numeric.detect*/ r == spec_contains_numeric(*expr)'], decreases='*expr'),
    'Expr::contains_datetime': dict(ret='r', ensures=['r == spec_contains_datetime(*self)']),
    'Expr::contains_datetime_field': dict(ret='r', ensures=['r == spec_contains_datetime(*expr)'], decreases='*expr'),
    '__field_from_str': '    #[verifier::external_body]\n    pub fn from_str(s: &str) -> Result<Field, String> { unimplemented!() }\n',
    '__function_from_str': '    #[verifier::external_body]\n    pub fn from_str(s: &str) -> Result<Function, String> { unimplemented!() }\n',
    '__expr_clone': ('impl Clone for Expr {\n    #[verifier::external_body]\n'
                     '    fn clone(&self) -> (r: Expr) ensures r == *self { unimplemented!() }\n}\n'
                     'impl Clone for Lexem {\n    #[verifier::external_body]\n'
                     '    fn clone(&self) -> (r: Lexem) ensures r == *self { unimplemented!() }\n}\n'
                     '// derived PartialEq of Lexem: structural equality (trusted, T6)\n'
                     'impl PartialEq for Lexem {\n    #[verifier::external_body]\n'
                     '    fn eq(&self, other: &Lexem) -> (r: bool) ensures r == (*self == *other) { unimplemented!() }\n'
                     '    #[verifier::external_body]\n'
                     '    fn ne(&self, other: &Lexem) -> (r: bool) ensures r == (*self != *other) { unimplemented!() }\n}\n'),

    # constructors: proved to build exactly the node their name says (strongest postcondition)
    'Expr::value': dict(ret='r', ensures=['r == (Expr { left: None, arithmetic_op: None, logical_op: None, op: None, right: None, minus: false, field: None, function: None, args: None, val: Some(value) })']),
    'Expr::field': dict(ret='r', ensures=['r == (Expr { left: None, arithmetic_op: None, logical_op: None, op: None, right: None, minus: false, field: Some(field), function: None, args: None, val: None })']),
    'Expr::op': dict(ret='r', ensures=['r == (Expr { left: Some(Box::new(left)), arithmetic_op: None, logical_op: None, op: Some(op), right: Some(Box::new(right)), minus: false, field: None, function: None, args: None, val: None })']),
    'Expr::logical_op': dict(ret='r', ensures=['r == (Expr { left: Some(Box::new(left)), arithmetic_op: None, logical_op: Some(logical_op), op: None, right: Some(Box::new(right)), minus: false, field: None, function: None, args: None, val: None })']),
    'Expr::arithmetic_op': dict(ret='r', ensures=['r == (Expr { left: Some(Box::new(left)), arithmetic_op: Some(arithmetic_op), logical_op: None, op: None, right: Some(Box::new(right)), minus: false, field: None, function: None, args: None, val: None })']),
    'Op::negate': dict(ret='r', ensures=['r == spec_negate(op)']),
    'Op::from_with_not': dict(ret='r', ensures=['r == spec_op_with_not(text@, not)']),

    # ---- cursor primitives ----
    'next_lexem': dict(ret='r', attrs=[NODEC],
                       ensures=['final(self).lexems == old(self).lexems',
                                'final(self).index == old(self).index + 1',
                                'r == (if old(self).index < old(self).lexems.len() { Some(old(self).lexems[old(self).index as int]) } else { None::<Lexem> })'],
                       proofs={r'let\s+lexem\s*=\s*self\.lexems\.get': 'proof { assume(self.index < usize::MAX); /* A1 */ }'}),
    'drop_lexem': dict(attrs=[NODEC], requires=['old(self).index > 0'],
                       ensures=['final(self).lexems == old(self).lexems', 'final(self).index == old(self).index - 1']),
    'there_are_remaining_lexems': dict(ret='r', attrs=[NODEC], ensures=FRAME),

    # ---- recursive descent ----
    'parse_where': dict(ret='r', attrs=[NODEC], ensures=FRAME),
    # one-step tree construction (C03 / C15): the node built for `X OP Y` carries exactly the operator just read,
    # the tree so far as left child and the newly parsed operand as right child (left-associative chain)
    'parse_expr': parse_fn(loops={0: dict(invariant=LOOPINV + ['left is Some'])},
                           proofs={r'right\s*=\s*match\s+right\s*\{': 'let ghost verif_r = right; let ghost verif_e = expr;'},
                           proofs_after={r'right\s*=\s*match\s+right\s*\{':
                                         'proof { assert(/*C03.tree.or*/ right == (if verif_r is Some { Some(spec_logical_node(verif_r->Some_0, LogicalOp::Or, verif_e->Some_0)) } else { verif_e })); }'}),
    'parse_and': parse_fn(loops={0: dict(invariant=LOOPINV + ['left is Some'])},
                          proofs={r'right\s*=\s*match\s+right\s*\{': 'let ghost verif_r = right; let ghost verif_e = expr;'},
                          proofs_after={r'right\s*=\s*match\s+right\s*\{':
                                        'proof { assert(/*C03.tree.and*/ right == (if verif_r is Some { Some(spec_logical_node(verif_r->Some_0, LogicalOp::And, verif_e->Some_0)) } else { verif_e })); }'}),
    # C03: `not not A` is A - the number of leading NOT tokens decides; `x OP y` builds the node (x, operator OP denotes, y) and
    # `x not OP y` the node with the complement operator
    'parse_cond': parse_fn(
        loops={0: dict(invariant=LOOPINV + [
            '/*C03.not.parity*/ negate == ((self.index - old(self).index) % 2 == 1)',
            '/*C03.not.parity*/ lead_nots(self.lexems@, old(self).index as int) == (self.index - old(self).index) + lead_nots(self.lexems@, self.index as int)'],
            ensures=['/*C03.not.parity*/ lead_nots(self.lexems@, self.index as int) == 0'])},
        proofs={r'let\s+left\s*=\s*self\.parse_add_sub\(\)\?;':
                    'proof { assert(/*C03.not.parity*/ negate == (lead_nots(self.lexems@, old(self).index as int) % 2 == 1)); }',
                r'let\s+mut\s+result\s*=\s*match\s+lexem\s*\{': 'let ghost verif_left = left; let ghost verif_not = not; let ghost verif_lexem = lexem;'},
        proofs_after={r'let\s+mut\s+result\s*=\s*match\s+lexem\s*\{':
                    'proof { assert(/*C03.cond.operator*/ (verif_lexem is Some && verif_lexem->Some_0 is Operator && spec_lower(verif_lexem->Some_0->Operator_0@) != "between"@ && result is Ok && result->Ok_0 is Some) ==> '
                    '({ let s = verif_lexem->Some_0->Operator_0; let e = result->Ok_0->Some_0; spec_op_with_not(s@, verif_not) is Some && verif_left is Some && e.op == spec_op_with_not(s@, verif_not) && e.left == Some(Box::new(verif_left->Some_0)) '
                    '&& e.right is Some && e.logical_op is None && e.arithmetic_op is None })); }'}),
    'parse_add_sub': parse_fn(loops={0: dict(invariant=LOOPINV + ['left is Some'])},
                              proofs={r'left\s*=\s*match\s+left\s*\{': 'let ghost verif_l = left; let ghost verif_e = expr; let ghost verif_o = new_op;'},
                              proofs_after={r'left\s*=\s*match\s+left\s*\{':
                                            'proof { assert(/*C15.tree.addsub*/ verif_o is Some && (verif_o->Some_0 == ArithmeticOp::Add || verif_o->Some_0 == ArithmeticOp::Subtract) && left == (if verif_l is Some { Some(spec_arith_node(verif_l->Some_0, verif_o->Some_0, verif_e->Some_0)) } else { verif_e })); }'}),
    'parse_mul_div': parse_fn(loops={0: dict(invariant=LOOPINV + ['left is Some'])},
                              proofs={r'left\s*=\s*match\s+left\s*\{': 'let ghost verif_l = left; let ghost verif_e = expr; let ghost verif_o = new_op;'},
                              proofs_after={r'left\s*=\s*match\s+left\s*\{':
                                            'proof { assert(/*C15.tree.muldiv*/ verif_o is Some && (verif_o->Some_0 == ArithmeticOp::Multiply || verif_o->Some_0 == ArithmeticOp::Divide || verif_o->Some_0 == ArithmeticOp::Modulo) && left == (if verif_l is Some { Some(spec_arith_node(verif_l->Some_0, verif_o->Some_0, verif_e->Some_0)) } else { verif_e })); }'}),
    'parse_paren': parse_fn(extra_ens=[
        # C11 / C03: both bracket styles are accepted, each closed by its own kind
        '/*C11.brackets*/ (lexem_at(*old(self), 0) is Some && lexem_at(*old(self), 0)->Some_0 is Open && r is Ok) ==> '
        '(1 <= final(self).index <= final(self).lexems.len() && final(self).lexems[final(self).index - 1] is Close)',
        '/*C11.brackets*/ (lexem_at(*old(self), 0) is Some && lexem_at(*old(self), 0)->Some_0 is CurlyOpen && r is Ok) ==> '
        '(1 <= final(self).index <= final(self).lexems.len() && final(self).lexems[final(self).index - 1] is CurlyClose)',
    ]),
    'parse_func_scalar': parse_fn(proofs={r'let\s+mut\s+lexem\s*=\s*self\.next_lexem\(\);': 'proof { broadcast use axiom_to_string_of_string; }'}, extra_ens=[
        # C02.quoted.literal: a quoted token is always text
        '/*C02.quoted.literal*/ (lexem_at(*old(self), 0) is Some && lexem_at(*old(self), 0)->Some_0 is String) ==> (r matches Ok(Some(e)) && '
        'e.val is Some && e.val->Some_0@ == lexem_at(*old(self), 0)->Some_0->String_0@ && e.field is None && e.function is None '
        '&& e.left is None && e.right is None && e.op is None && e.logical_op is None && e.arithmetic_op is None && !e.minus '
        '&& final(self).index == old(self).index + 1)',
    ]),
    'parse_function': dict(ret='r', attrs=[NODEC], loops={0: dict(invariant=LOOPINV + ['!(lexem_at(*old(self), 0) is Some && !(lexem_at(*old(self), 0)->Some_0 is Open) && !(lexem_at(*old(self), 0)->Some_0 is CurlyOpen))'])}, guard_to_if=True, ensures=FRAME + [
        # C11: `()` after an argument-less function changes nothing - without brackets the next token is left in place
        '/*C11.noparens*/ (spec_argless(function) && lexem_at(*old(self), 0) is Some && !(lexem_at(*old(self), 0)->Some_0 is Open) && '
        '!(lexem_at(*old(self), 0)->Some_0 is CurlyOpen)) ==> (r is Ok && final(self).index == old(self).index)',
    ]),
    'parse_group_by': dict(ret='r', attrs=[NODEC], ensures=FRAME, loops={0: dict(invariant=LOOPINV)}),
    'parse_order_by': dict(ret='r', attrs=[NODEC], ensures=FRAME + ['/*C05.orderby.parse*/ r matches Ok(p) ==> p.0.len() == p.1.len()'],
                           loops={0: dict(invariant=LOOPINV + ['order_by_fields.len() == order_by_directions.len()'])}),
    'parse_limit': dict(ret='r', attrs=[NODEC], ensures=FRAME + [
        # C06.limit.parse: absent LIMIT means unlimited (0) and consumes nothing
        '/*C06.limit.parse*/ !(lexem_at(*old(self), 0) is Some && lexem_at(*old(self), 0)->Some_0 is Limit) ==> r == Ok::<u32, &str>(0u32) && final(self).index == old(self).index',
        # LIMIT followed by a word: the number it denotes, or an error - never a silently substituted value
        '/*C06.limit.parse*/ (lexem_at(*old(self), 0) is Some && lexem_at(*old(self), 0)->Some_0 is Limit && lexem_text(lexem_at(*old(self), 1)) is Some) ==> '
        '(match spec_parse::<u32>(lexem_text(lexem_at(*old(self), 1))->Some_0) { Some(n) => r == Ok::<u32, &str>(n), None => r is Err })',
        '/*C06.limit.parse*/ (lexem_at(*old(self), 0) is Some && lexem_at(*old(self), 0)->Some_0 is Limit && lexem_text(lexem_at(*old(self), 1)) is None) ==> r is Err',
    ]),
    'parse_output_format': dict(ret='r', attrs=[NODEC], ensures=FRAME + [
        # absent INTO: the default format, nothing consumed
        '/*C10.format.parse*/ !(lexem_at(*old(self), 0) is Some && lexem_at(*old(self), 0)->Some_0 is Into) ==> r == Ok::<OutputFormat, &str>(OutputFormat::Tabs) && final(self).index == old(self).index',
        # INTO word: the format the word denotes, or an error - never a silently substituted format
        '/*C10.format.parse*/ (lexem_at(*old(self), 0) is Some && lexem_at(*old(self), 0)->Some_0 is Into && lexem_text(lexem_at(*old(self), 1)) is Some) ==> '
        '(match spec_format_from(lexem_text(lexem_at(*old(self), 1))->Some_0) { Some(f) => r == Ok::<OutputFormat, &str>(f), None => r is Err })',
        '/*C10.format.parse*/ (lexem_at(*old(self), 0) is Some && lexem_at(*old(self), 0)->Some_0 is Into && lexem_text(lexem_at(*old(self), 1)) is None) ==> r is Err',
    ]),
    # select list and root options: panic freedom, cursor frame and termination only
    # root options (C11 / C01): an option list made of DOCUMENTED option words (docs/usage.md: mindepth N, maxdepth N / depth N,
    # symlinks / sym, archives / arc, gitignore / git, hgignore / hg, dockerignore / dock, no..ignore / nogit nohg nodock, bfs, dfs,
    # regexp / rx - any letter case) that ends at the end of the input or at a structural token yields exactly the documented
    # options and leaves the structural token for the caller. Nothing is claimed once an undocumented word is met.
    'parse_root_options': dict(ret='r', attrs=[NODEC], hoist_items=True,
        ensures=FRAME + [
            '/*C11.rootopt*/ ({ let run = opt_run(old(self).lexems@, old(self).index as int, opt_init(), true); '
            '!opt_stops_at_word(old(self).lexems@, run.1) ==> (r == opt_result(run.0) && final(self).index >= run.1 && '
            '(run.1 < old(self).lexems@.len() ==> final(self).index == run.1)) })',
            # C01 reading: only `mindepth N`, `maxdepth N`, `depth N` are specified; any other word ends the specified prefix
            '/*C01.rootopt*/ ({ let run = opt_run(old(self).lexems@, old(self).index as int, opt_init(), false); '
            '!opt_stops_at_word(old(self).lexems@, run.1) ==> (r == opt_result(run.0) && final(self).index >= run.1 && '
            '(run.1 < old(self).lexems@.len() ==> final(self).index == run.1)) })'],
        proofs={r'let\s+lexem\s*=\s*self\.next_lexem\(\);': 'broadcast use axiom_pat_view_str; proof { opt_reveal_literals(); opt_reveal_literals_auto(); }'},
        loops={0: dict(
            invariant=LOOPINV,
            invariant_except_break=[
                '/*C11.rootopt*/ ({ let run = opt_run(self.lexems@, old(self).index as int, opt_init(), true); '
                'opt_stops_at_word(self.lexems@, run.1) || run == opt_run(self.lexems@, self.index as int, OptSt { mode, min_depth, max_depth, archives, symlinks, gitignore, hgignore, dockerignore, traversal, regexp }, true) })',
                '/*C01.rootopt*/ ({ let run = opt_run(self.lexems@, old(self).index as int, opt_init(), false); '
                'opt_stops_at_word(self.lexems@, run.1) || run == opt_run(self.lexems@, self.index as int, OptSt { mode, min_depth, max_depth, archives, symlinks, gitignore, hgignore, dockerignore, traversal, regexp }, false) })'],
            ensures=[
                '/*C11.rootopt*/ ({ let run = opt_run(self.lexems@, old(self).index as int, opt_init(), true); '
                'opt_stops_at_word(self.lexems@, run.1) || (run.0 == (OptSt { mode, min_depth, max_depth, archives, symlinks, gitignore, hgignore, dockerignore, traversal, regexp }) '
                '&& self.index >= run.1 && (run.1 < self.lexems@.len() ==> self.index == run.1)) })',
                '/*C01.rootopt*/ ({ let run = opt_run(self.lexems@, old(self).index as int, opt_init(), false); '
                'opt_stops_at_word(self.lexems@, run.1) || (run.0 == (OptSt { mode, min_depth, max_depth, archives, symlinks, gitignore, hgignore, dockerignore, traversal, regexp }) '
                '&& self.index >= run.1 && (run.1 < self.lexems@.len() ==> self.index == run.1)) })'])}),
    'is_regexp_root_option': dict(ret='r', ensures=['r == spec_is_rx_word(s@)']),
    # C11: a comma between columns and the word `select` (any letter case) add nothing to the select list - each is skipped as one token
    'parse_fields': dict(ret='r', attrs=[NODEC], ensures=FRAME,
        proofs_after={r'let\s+mut\s+fields\s*=\s*vec!\[\]\s*;': 'let ghost mut verif_pf: Seq<Expr> = fields@; let ghost mut verif_pi: int = self.index as int; let ghost mut verif_pt: Option<Lexem> = None;'},
        proofs={r'let\s+lexem\s*=\s*self\.next_lexem\(\);': 'proof { verif_pf = fields@; verif_pi = self.index as int; verif_pt = lexem_at(*self, 0); }'},
        loops={0: dict(invariant=LOOPINV,
                       invariant_except_break=['/*C11.fields.skip*/ pf_skip(verif_pt) ==> (fields@ == verif_pf && self.index == verif_pi + 1)'])}),
    # every documented option name (any letter case) is recognised as one
    'is_root_option_keyword': dict(ret='r', ensures=['/*C11.rootopt.keyword*/ opt_doc_name(opt_init(), s@, true) is Some ==> r'],
                                   proofs={r'let\s+s\s*=\s*s\.to_ascii_lowercase\(\);': 'broadcast use axiom_pat_view_str; proof { opt_reveal_literals(); opt_reveal_literals_auto(); }'}),
    'negate_expr_op': dict(ret='r', attrs=[NODEC], rewrites=[('let &Some(op) = &expr.op', 'let Some(op) = expr.op')],
                           ensures=['/*C03.demorgan*/ cond_wf(*expr) ==> cond_wf(r)',
                                    '/*C03.demorgan*/ cond_wf(*expr) ==> cond_sem(r) == !cond_sem(*expr)'],
                           proofs={r'let\s+mut\s+result\s*=\s*expr\.clone\(\);': 'proof { broadcast use axiom_atom_negate; }'}),
}

# ---- termination: every loop and every (mutually) recursive parser method carries a decreases clause -----------------
# measure: rem(p) = tokens left (+1), clamped at 0 once the cursor is past the end; recursion level breaks ties
LEVEL = {'parse_expr': 8, 'parse_and': 7, 'parse_cond': 6, 'parse_add_sub': 5, 'parse_mul_div': 4, 'parse_paren': 3,
         'parse_func_scalar': 2, 'parse_function': 1}
PROGRESS = 'r is Ok ==> final(self).index > old(self).index'
for _f, _sp in SPECS.items():
    if isinstance(_sp, dict) and NODEC in _sp.get('attrs', []):
        _sp['attrs'] = [a for a in _sp['attrs'] if a != NODEC]
        if _f in LEVEL:
            _sp['decreases'] = f'rem(*old(self)), {LEVEL[_f]}int'
            if _f != 'parse_function':
                _sp['ensures'] = list(_sp.get('ensures', [])) + [PROGRESS]
            else:
                _sp['requires'] = list(_sp.get('requires', [])) + ['old(self).index <= old(self).lexems.len()']
        _loops = {}
        for _k, _lp in _sp.get('loops', {}).items():
            _lp = dict(_lp)
            _lp['decreases'] = 'rem(*self)'
            if _f in ('parse_expr', 'parse_and', 'parse_add_sub', 'parse_mul_div'):
                _lp['invariant'] = list(_lp['invariant']) + ['self.index > old(self).index']
            _loops[_k] = _lp
        if _loops:
            _sp['loops'] = _loops
SPECS['negate_expr_op']['decreases'] = 'expr'

EXTRA = '''
pub uninterp spec fn spec_argless(f: Function) -> bool;
// tokens of the select list that stand for nothing: a comma, the word `select`
pub open spec fn pf_skip(t: Option<Lexem>) -> bool {
    t is Some && (t->Some_0 is Comma
        || (t->Some_0 is String && spec_ascii_lower(t->Some_0->String_0@) == "select"@)
        || (t->Some_0 is RawString && spec_ascii_lower(t->Some_0->RawString_0@) == "select"@)
        || (t->Some_0 is ArithmeticOperator && spec_ascii_lower(t->Some_0->ArithmeticOperator_0@) == "select"@))
}
pub uninterp spec fn spec_format_from(s: Seq<char>) -> Option<OutputFormat>;
pub uninterp spec fn spec_op_from(s: Seq<char>) -> Option<Op>;
pub open spec fn spec_op_with_not(s: Seq<char>, not: bool) -> Option<Op> {
    match spec_op_from(s) { Some(op) => Some(if not { spec_negate(op) } else { op }), None => None }
}
// number of NOT tokens from position i on
pub open spec fn lead_nots(ls: Seq<Lexem>, i: int) -> int
    decreases ls.len() - i
{
    if 0 <= i < ls.len() && ls[i] is Not { 1 + lead_nots(ls, i + 1) } else { 0 }
}
pub uninterp spec fn spec_numeric_field(f: Field) -> bool;
pub uninterp spec fn spec_datetime_field(f: Field) -> bool;
pub uninterp spec fn spec_numeric_fn(f: Function) -> bool;
pub uninterp spec fn spec_agg_fn(f: Function) -> bool;
pub open spec fn spec_has_agg(e: Expr) -> bool
    decreases e
{
    (e.left is Some && spec_has_agg(*e.left->Some_0))
    || (e.right is Some && spec_has_agg(*e.right->Some_0))
    || (e.function is Some && spec_agg_fn(e.function->Some_0))
    || (e.args is Some && exists|i: int| 0 <= i < e.args->Some_0@.len() && spec_has_agg(#[trigger] e.args->Some_0@[i]))
}
pub open spec fn spec_contains_numeric(e: Expr) -> bool
    decreases e
{
    (e.field is Some && spec_numeric_field(e.field->Some_0))
    || (e.function is Some && spec_numeric_fn(e.function->Some_0))
    || (e.left is Some && spec_contains_numeric(*e.left->Some_0))
    || (e.right is Some && spec_contains_numeric(*e.right->Some_0))
}
// date keys: the column itself or the first operand chain (as implemented; C05 does not speak about date-valued expressions)
pub open spec fn spec_contains_datetime(e: Expr) -> bool
    decreases e
{
    (e.field is Some && spec_datetime_field(e.field->Some_0))
    || (e.left is Some && spec_contains_datetime(*e.left->Some_0))
}

// ---- C11 / C01: the documented root options (docs/usage.md, table "Search roots") ------------------------------------
ghost struct OptSt {
    pub mode: RootParsingMode, pub min_depth: u32, pub max_depth: u32, pub archives: bool, pub symlinks: bool,
    pub gitignore: Option<bool>, pub hgignore: Option<bool>, pub dockerignore: Option<bool>, pub traversal: TraversalMode, pub regexp: bool,
}
spec fn opt_init() -> OptSt {
    OptSt { mode: RootParsingMode::Unknown, min_depth: 0, max_depth: 0, archives: false, symlinks: false, gitignore: None,
            hgignore: None, dockerignore: None, traversal: TraversalMode::Bfs, regexp: false }
}
pub open spec fn spec_is_rx_word(s: Seq<char>) -> bool {
    spec_ascii_lower(s) == spec_ascii_lower("rx"@) || spec_ascii_lower(s) == spec_ascii_lower("regexp"@)
}
// one documented option word (any letter case) in a position where an option name is expected
spec fn opt_doc_name(st: OptSt, t: Seq<char>, full: bool) -> Option<OptSt> {
    let w = spec_ascii_lower(t);
    let o = OptSt { mode: RootParsingMode::Options, ..st };
    if w == "mindepth"@ { Some(OptSt { mode: RootParsingMode::MinDepth, ..st }) }
    else if w == "maxdepth"@ || w == "depth"@ { Some(OptSt { mode: RootParsingMode::Depth, ..st }) }
    else if !full { None }   // C01 reading: only the depth options are specified
    else if w == "symlinks"@ || w == "sym"@ { Some(OptSt { symlinks: true, ..o }) }
    else if w == "archives"@ || w == "arc"@ { Some(OptSt { archives: true, ..o }) }
    else if w == "gitignore"@ || w == "git"@ { Some(OptSt { gitignore: Some(true), ..o }) }
    else if w == "hgignore"@ || w == "hg"@ { Some(OptSt { hgignore: Some(true), ..o }) }
    else if w == "dockerignore"@ || w == "dock"@ { Some(OptSt { dockerignore: Some(true), ..o }) }
    else if w == "nogitignore"@ || w == "nogit"@ { Some(OptSt { gitignore: Some(false), ..o }) }
    else if w == "nohgignore"@ || w == "nohg"@ { Some(OptSt { hgignore: Some(false), ..o }) }
    else if w == "nodockerignore"@ || w == "nodock"@ { Some(OptSt { dockerignore: Some(false), ..o }) }
    else if w == "bfs"@ { Some(OptSt { traversal: TraversalMode::Bfs, ..o }) }
    else if w == "dfs"@ { Some(OptSt { traversal: TraversalMode::Dfs, ..o }) }
    else { None }
}
spec fn opt_doc_word(st: OptSt, t: Seq<char>, full: bool) -> Option<OptSt> {
    match st.mode {
        RootParsingMode::MinDepth => match spec_parse::<u32>(t) {
            Some(n) => Some(OptSt { min_depth: n, mode: RootParsingMode::Options, ..st }), None => None },
        RootParsingMode::Depth => match spec_parse::<u32>(t) {
            Some(n) => Some(OptSt { max_depth: n, mode: RootParsingMode::Options, ..st }), None => None },
        _ => opt_doc_name(st, t, full),
    }
}
// Some(state after the token) when the token is a documented continuation of the option list, None otherwise
spec fn opt_doc(st: OptSt, l: Lexem, full: bool) -> Option<OptSt> {
    match l {
        Lexem::String(t) => opt_doc_word(st, t@, full),
        Lexem::RawString(t) => opt_doc_word(st, t@, full),
        Lexem::Operator(t) => if full && (st.mode is Unknown || st.mode is Options) && spec_is_rx_word(t@) {
                Some(OptSt { regexp: true, mode: RootParsingMode::Options, ..st }) } else { None },
        _ => None,
    }
}
spec fn opt_run(ls: Seq<Lexem>, i: int, st: OptSt, full: bool) -> (OptSt, int)
    decreases ls.len() - i
{
    if 0 <= i < ls.len() {
        match opt_doc(st, ls[i], full) { Some(st2) => opt_run(ls, i + 1, st2, full), None => (st, i) }
    } else { (st, i) }
}
// the documented prefix of the option list ends at a word-like token: behaviour not specified by the documentation
spec fn opt_stops_at_word(ls: Seq<Lexem>, j: int) -> bool {
    0 <= j < ls.len() && (ls[j] is String || ls[j] is RawString || ls[j] is Operator)
}
spec fn opt_result(st: OptSt) -> Option<RootOptions> {
    if st.mode is Unknown { None } else {
        Some(RootOptions { min_depth: st.min_depth, max_depth: st.max_depth, archives: st.archives, symlinks: st.symlinks,
                           gitignore: st.gitignore, hgignore: st.hgignore, dockerignore: st.dockerignore,
                           traversal: st.traversal, regexp: st.regexp })
    }
}
proof fn opt_reveal_literals()
    ensures
        "mindepth"@ == seq!['m','i','n','d','e','p','t','h'], "maxdepth"@ == seq!['m','a','x','d','e','p','t','h'], "depth"@ == seq!['d','e','p','t','h'],
        "symlinks"@ == seq!['s','y','m','l','i','n','k','s'], "sym"@ == seq!['s','y','m'],
        "archives"@ == seq!['a','r','c','h','i','v','e','s'], "arc"@ == seq!['a','r','c'],
        "gitignore"@ == seq!['g','i','t','i','g','n','o','r','e'], "git"@ == seq!['g','i','t'],
        "hgignore"@ == seq!['h','g','i','g','n','o','r','e'], "hg"@ == seq!['h','g'],
        "dockerignore"@ == seq!['d','o','c','k','e','r','i','g','n','o','r','e'], "dock"@ == seq!['d','o','c','k'],
        "nogitignore"@ == seq!['n','o','g','i','t','i','g','n','o','r','e'], "nogit"@ == seq!['n','o','g','i','t'],
        "nohgignore"@ == seq!['n','o','h','g','i','g','n','o','r','e'], "nohg"@ == seq!['n','o','h','g'],
        "nodockerignore"@ == seq!['n','o','d','o','c','k','e','r','i','g','n','o','r','e'], "nodock"@ == seq!['n','o','d','o','c','k'],
        "bfs"@ == seq!['b','f','s'], "dfs"@ == seq!['d','f','s'], "regex"@ == seq!['r','e','g','e','x'],
{
    reveal_strlit("mindepth"); reveal_strlit("maxdepth"); reveal_strlit("depth"); reveal_strlit("symlinks"); reveal_strlit("sym");
    reveal_strlit("archives"); reveal_strlit("arc"); reveal_strlit("gitignore"); reveal_strlit("git"); reveal_strlit("hgignore");
    reveal_strlit("hg"); reveal_strlit("dockerignore"); reveal_strlit("dock"); reveal_strlit("nogitignore"); reveal_strlit("nogit");
    reveal_strlit("nohgignore"); reveal_strlit("nohg"); reveal_strlit("nodockerignore"); reveal_strlit("nodock");
    reveal_strlit("bfs"); reveal_strlit("dfs"); reveal_strlit("regex");
}

spec fn rem(p: Parser) -> int { if p.index <= p.lexems.len() { p.lexems.len() + 1 - p.index } else { 0 } }

pub open spec fn spec_arith_node(l: Expr, op: ArithmeticOp, r: Expr) -> Expr {
    Expr { left: Some(Box::new(l)), arithmetic_op: Some(op), logical_op: None, op: None, right: Some(Box::new(r)), minus: false,
           field: None, function: None, args: None, val: None }
}
pub open spec fn spec_logical_node(l: Expr, op: LogicalOp, r: Expr) -> Expr {
    Expr { left: Some(Box::new(l)), arithmetic_op: None, logical_op: Some(op), op: None, right: Some(Box::new(r)), minus: false,
           field: None, function: None, args: None, val: None }
}

spec fn lexem_at(p: Parser, k: int) -> Option<Lexem> {
    if 0 <= p.index + k < p.lexems.len() { Some(p.lexems[p.index + k]) } else { None }
}
// text of a word token (quoted or not)
spec fn lexem_text(l: Option<Lexem>) -> Option<Seq<char>> {
    match l {
        Some(Lexem::RawString(s)) => Some(s@),
        Some(Lexem::String(s)) => Some(s@),
        _ => None,
    }
}

// ---- C03: semantics of a condition tree, mirroring the dispatch order of Searcher::conforms (logical_op first,
// then op). A comparison leaf is an uninterpreted truth value `atom(left, op, right)` of the current entry.
pub uninterp spec fn atom(l: Expr, op: Op, r: Expr) -> bool;
pub uninterp spec fn other_sem(e: Expr) -> bool;

// Assumed here, PROVED per typed arm by Engine F (obligations C03.negate.complement.{int,float,bool,datetime});
// for the string arm (regex) it is an assumption.
#[verifier::external_body]
pub broadcast proof fn axiom_atom_negate(l: Expr, op: Op, r: Expr)
    ensures #[trigger] atom(l, spec_negate(op), r) == !atom(l, op, r)
{}

pub open spec fn cond_sem(e: Expr) -> bool
    decreases e
{
    if e.logical_op is Some {
        if e.left is Some && e.right is Some {
            match e.logical_op->Some_0 {
                LogicalOp::And => cond_sem(*e.left->Some_0) && cond_sem(*e.right->Some_0),
                LogicalOp::Or => cond_sem(*e.left->Some_0) || cond_sem(*e.right->Some_0),
            }
        } else { other_sem(e) }
    } else if e.op is Some {
        if e.left is Some && e.right is Some { atom(*e.left->Some_0, e.op->Some_0, *e.right->Some_0) } else { other_sem(e) }
    } else { other_sem(e) }
}

// shape of every tree parse_cond / parse_and / parse_expr build for a WHERE clause
pub open spec fn cond_wf(e: Expr) -> bool
    decreases e
{
    if e.logical_op is Some {
        e.left is Some && e.right is Some && cond_wf(*e.left->Some_0) && cond_wf(*e.right->Some_0)
    } else {
        e.op is Some && e.left is Some && e.right is Some
    }
}

// canary: must FAIL (vacuity / machinery guard)
fn verif_canary_must_fail(x: u8) -> (r: u8)
    ensures r == 255,
{ x }

pub open spec fn spec_negate(op: Op) -> Op {
    match op {
        Op::Eq => Op::Ne, Op::Ne => Op::Eq, Op::Eeq => Op::Ene, Op::Ene => Op::Eeq,
        Op::Gt => Op::Lte, Op::Lte => Op::Gt, Op::Lt => Op::Gte, Op::Gte => Op::Lt,
        Op::Rx => Op::NotRx, Op::NotRx => Op::Rx, Op::Like => Op::NotLike, Op::NotLike => Op::Like,
        Op::Between => Op::NotBetween, Op::NotBetween => Op::Between,
    }
}
'''


# ==== lexer (second generated file, lexer_v.rs) =======================================================================
# measure: (parts left, characters left in the current part, +1 for the synthetic space at a part boundary)
LEXER_SPECS = {
    'Lexer::new': dict(ret='r', strip_pub=True,
        # both facts hold for every Rust Vec<String> (a String is at most isize::MAX bytes); listed as assumptions
        requires=['input@.len() <= usize::MAX', 'forall|i: int| 0 <= i < input@.len() ==> (#[trigger] input@[i])@.len() < isize::MAX'],
        ensures=['lex_wf(r)', 'r.input == input']),
    'Lexer::next_lexem': dict(ret='r', strip_pub=True,
        requires=['lex_wf(*old(self))'],
        ensures=['lex_wf(*final(self))', 'final(self).input == old(self).input',
                 # every token consumes input: the loop `while let Some(lexem) = lexer.next_lexem()` of Parser::parse terminates
                 'r is Some ==> lex_lt(*final(self), *old(self))',
                 # C11: both bracket styles leave the lexer in the same state
                 '/*C11.lexer.after_open*/ r is Some ==> final(self).after_open == (r->Some_0 is Open || r->Some_0 is CurlyOpen)',
                 '/*C11.lexer.after_open*/ r is Some ==> final(self).after_operator == (r->Some_0 is Operator)',
                 # C02: a token that starts at a quote character is a text literal, whatever it spells; a comma is a Comma token
                 '/*C02.lexer.quoted*/ lex_is_quote(lex_cur(*old(self))) ==> (r is Some && r->Some_0 is String)',
                 "/*C02.lexer.quoted*/ lex_cur(*old(self)) == Some(',') ==> (r is Some && r->Some_0 is Comma)"],
        decreases='m1(*old(self)), m2(*old(self))',
        rewrites=[('input_part.chars().nth(self.char_index as usize)', 'verif_char_at(input_part, self.char_index as usize)')],
        loops={0: dict(invariant=['lex_wf(*self)', 'self.input == old(self).input',
                                  '!(mode is Undefined) ==> lex_lt(*self, *old(self))',
                                  '(mode is Undefined) ==> (lex_lt(*self, *old(self)) || (m1(*self) == m1(*old(self)) && m2(*self) == m2(*old(self))))',
                                  '/*C11.lexer.after_open*/ !(mode is Undefined) ==> self.after_open == (mode is Open)',
                                  '/*C02.lexer.quoted*/ lex_is_quote(lex_cur(*old(self))) ==> ((mode is Undefined && self.input_index == old(self).input_index && self.char_index == old(self).char_index) '
                                  '|| mode is SingleQuotedString || mode is DoubleQuotedString || mode is BackticksQuotedString)',
                                  "/*C02.lexer.quoted*/ lex_cur(*old(self)) == Some(',') ==> ((mode is Undefined && self.input_index == old(self).input_index && self.char_index == old(self).char_index) || mode is Comma)"],
                       # the loop is left in the Undefined mode only when the input is exhausted
                       ensures=['(mode is Undefined) ==> self.input_index >= self.input@.len()'],
                       decreases='m1(*self), m2(*self)')}),
    'Lexer::is_arithmetic_op_char': dict(ret='r'),
    'Lexer::is_op_char': dict(ret='r'),
    'is_paren_char': dict(ret='r'),
}
LEXER_EXTRA = '''
spec fn part_len(l: Lexer, i: int) -> int { if 0 <= i < l.input@.len() { l.input@[i]@.len() as int } else { 0 } }
spec fn lex_wf(l: Lexer) -> bool {
    l.input_index <= l.input@.len() && l.input@.len() <= usize::MAX && -1 <= l.char_index
    && (l.input_index < l.input@.len() ==> l.char_index <= l.input@[l.input_index as int]@.len())
    && (forall|i: int| 0 <= i < l.input@.len() ==> (#[trigger] l.input@[i])@.len() < isize::MAX)
}
// the character under the cursor (None at a part boundary / past the end)
spec fn lex_cur(l: Lexer) -> Option<char> {
    if l.input_index < l.input@.len() && 0 <= l.char_index < l.input@[l.input_index as int]@.len() { Some(l.input@[l.input_index as int]@[l.char_index as int]) } else { None }
}
spec fn lex_is_quote(c: Option<char>) -> bool { c == Some('\\'') || c == Some('"') || c == Some('`') }
spec fn m1(l: Lexer) -> int { l.input@.len() - l.input_index }
spec fn m2(l: Lexer) -> int { if l.input_index < l.input@.len() { part_len(l, l.input_index as int) - l.char_index } else { 0 } }
spec fn lex_lt(a: Lexer, b: Lexer) -> bool { m1(a) < m1(b) || (m1(a) == m1(b) && m2(a) < m2(b)) }

// canary: must FAIL (vacuity / machinery guard)
fn verif_canary_must_fail(x: u8) -> (r: u8)
    ensures r == 255,
{ x }
'''
