"""C07 - aggregates: AVG division (F) and SUM loop (V)."""
from common import *
OBLIGATIONS = [
    ob('C07.mean.real', 'verif_frag::mean::c07_mean_real', 'for all sum < 256 and 1 <= count <= 16: get_mean tail expression == sum as f64 / count as f64 (AVG is not truncated)', units=['mean'], complete=False, bound='sum < 256, 1 <= count <= 16 (symbolic f64 division does not terminate in CBMC on larger domains)'),
]
CANARIES = []
ASSUMPTIONS = ['bounded operand domain for the AVG division (see obligation)']
NOT_COVERED = ['MIN/MAX/COUNT arms, variance/stddev (iterator adapters, f64 loops over HashMap rows)', 'the buffering of rows', 'WHERE-before-aggregate']
