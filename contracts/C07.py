"""C07 - aggregates: AVG division (F) and SUM loop (V)."""
from common import *
OBLIGATIONS = [
    ob('C07.mean.real', 'verif_frag::mean::c07_mean_real', 'for all sum < 256 and 1 <= count <= 16: get_mean tail expression == sum as f64 / count as f64 (AVG is not truncated)', units=['mean'], complete=False, bound='sum < 256, 1 <= count <= 16 (symbolic f64 division does not terminate in CBMC on larger domains)'),
]
OBLIGATIONS.append(dict(id='C07.sum', engine='V', verus_fn='get_buffer_sum', verus_file='sum', label='C07.sum', complete=True, bound=None, units=[], harness='verus:get_buffer_sum', tier='quick',
    desc='real get_buffer_sum (extracted verbatim), for any number of buffered rows: the result is the mathematical sum over the rows of the number the key column denotes (0 when absent or not a number); no overflow given that the sum fits usize'))
OBLIGATIONS.append(ob('C07.aggregate.inner', 'verif_frag::evalshim::c07_aggregate_dispatch', 'get_function_value (verbatim body on a shim world), aggregate branch: the inner expression is evaluated for the entry and the aggregate reads the buffer column named by the inner expression text', units=['evalshim'], complete=False, bound='1 concrete aggregate expression'))
CANARIES = []
ASSUMPTIONS = ['bounded operand domain for the AVG division (see obligation)']
NOT_COVERED = ['MIN/MAX/COUNT arms', 'VAR_* / STDDEV_*: get_variance uses f64::powi, which CBMC does not model (a verbatim-body harness on concrete rows failed spuriously and passed natively; removed)', 'that the SUM of the property is an i64 sum of the column: get_buffer_sum parses usize, so negative values are skipped', 'the buffering of rows', 'WHERE-before-aggregate']
HARNESS_TIMEOUT = 240
