"""C07 - aggregates: AVG division (F) and SUM loop (V)."""
from common import *
OBLIGATIONS = [
    ob('C07.mean.real', 'verif_frag::mean::c07_mean_real', 'for all sum < 256 and 1 <= count <= 16: get_mean tail expression == sum as f64 / count as f64 (AVG is not truncated)', units=['mean'], complete=False, bound='sum < 256, 1 <= count <= 16 (symbolic f64 division does not terminate in CBMC on larger domains)'),
]
OBLIGATIONS.append(dict(id='C07.sum', engine='V', verus_fn='get_buffer_sum', verus_file='sum', label='C07.sum', complete=True, bound=None, units=[], harness='verus:get_buffer_sum', tier='quick',
    desc='real get_buffer_sum (extracted verbatim), for any number of buffered rows: the result is the mathematical sum over the rows of the number the key column denotes (0 when absent or not a number); no overflow given that the sum fits usize'))
OBLIGATIONS.append(ob('C07.aggregate.inner', 'verif_frag::evalshim::c07_aggregate_dispatch', 'get_function_value (verbatim body on a shim world), aggregate branch: the inner expression is evaluated for the entry and the aggregate reads the buffer column named by the inner expression text', units=['evalshim'], complete=False, bound='1 concrete aggregate expression'))
V_ = 'verif_frag::variance::'
OBLIGATIONS.append(ob('C07.variance.pop', V_ + 'c07_var_pop', 'get_variance / get_mean / get_buffer_sum (whole bodies verbatim on a shim row world): population variance of 2,4,4,4,5,5,7,9 is 4', units=['variance'], complete=False, bound='1 concrete column of 8 rows'))
OBLIGATIONS.append(ob('C07.variance.fracmean', V_ + 'c07_var_fracmean', 'same bodies: columns whose mean is not an integer (1,2 and 1,2,4): population and sample variance equal the textbook values (deviations from the real mean)', units=['variance'], complete=False, bound='2 concrete columns'))
OBLIGATIONS.append(ob('C07.variance.large', V_ + 'c07_var_large', 'same bodies: large values with a small spread (4e9+1..4e9+3): variance 2/3 (population), 1 (sample) - no cancellation', units=['variance'], complete=False, bound='1 concrete column'))
OBLIGATIONS.append(ob('C07.variance.divisor', V_ + 'c07_var_divisor', 'the divisor the four VAR_ / STDDEV_ arms of get_aggregate_value hand to get_variance: the number of rows for _POP, rows - 1 for _SAMP (1 for a single row), for every row count', units=['variance']))
CANARIES = [dict(harness=V_ + 'canary_variance_must_fail', units=['variance'])]
ASSUMPTIONS = ['bounded operand domain for the AVG division (see obligation)']
NOT_COVERED = ['MIN/MAX/COUNT arms', 'VAR_* / STDDEV_* beyond the witness columns; the square root of STDDEV_*; rendering of the result', 'that the SUM of the property is an i64 sum of the column: get_buffer_sum parses usize, so negative values are skipped', 'the buffering of rows', 'WHERE-before-aggregate']
HARNESS_TIMEOUT = 240
