"""C11 - alternative spellings: alias tables and keyword recognition."""
from common import *
OBLIGATIONS = []
for name, sp in [('eq', '= == eq EQ'), ('ne', '!= <> ne NE'), ('eeq', '=== eeq EEQ'), ('ene', '!== ene ENE'), ('gt', '> gt GT'),
                 ('gte', '>= gte ge GTE GE'), ('lt', '< lt LT'), ('lte', '<= lte le LTE LE'), ('rx', '=~ ~= regexp rx REGEXP RX'),
                 ('notrx', '!=~ !~= notrx NOTRX'), ('like', 'like LIKE Like'), ('notlike', 'notlike NOTLIKE'), ('between', 'between BETWEEN')]:
    OBLIGATIONS.append(ob(f'C11.alias.op.{name}', OPS + f'c11_op_{name}', f'Op::from maps every documented spelling of this operator ({sp}) to the same operator', engine='K', units=['operators'], complete=True))
for name, sp in [('add', '+ plus PLUS'), ('sub', '- minus MINUS'), ('mul', '* mul MUL'), ('div', '/ div DIV'), ('mod', '% mod MOD')]:
    OBLIGATIONS.append(ob(f'C11.alias.arith.{name}', OPS + f'c11_arith_{name}', f'ArithmeticOp::from maps ({sp}) to the same operator', engine='K', units=['operators'], complete=True))
FIELD = 'field::verif_kani::'
for h, sp in [('ext', 'ext extension'), ('dir', 'dir dirname directory'), ('fsize', 'fsize hsize'), ('pipe', 'is_pipe is_fifo'), ('char', 'is_char is_character'),
              ('caps', 'capabilities caps'), ('exif', 'exif_longitude exif_lng exif_lon'), ('exif2', 'exif_latitude exif_lat'), ('exif3', 'exif_altitude exif_alt'),
              ('mp3a', 'mp3_title title'), ('mp3b', 'mp3_album album'), ('mp3c', 'mp3_artist artist'), ('mp3d', 'mp3_genre genre'), ('mp3e', 'mp3_freq freq'),
              ('mp3f', 'mp3_bitrate bitrate'), ('sha', 'sha2_256 sha256'), ('sha2', 'sha2_512 sha512'), ('sha3', 'sha3_512 sha3'), ('case', 'name NAME Name nAmE'), ('case2', 'size SIZE Size')]:
    OBLIGATIONS.append(ob(f'C11.alias.field.{h}', FIELD + f'c11_field_{h}', f'Field::from_str maps the documented spellings ({sp}, plus upper/mixed case) to the same column', engine='K', units=['fieldclass']))
for h, sp in [('lower', 'lower lowercase lcase'), ('upper', 'upper uppercase ucase'), ('length', 'length len'), ('substr', 'substring substr'), ('power', 'power pow'),
              ('curdate', 'current_date cur_date curdate'), ('dow', 'dow dayofweek'), ('varpop', 'var_pop variance'), ('random', 'random rand'), ('fmttime', 'format_time pretty_time'),
              ('caps', 'has_capability has_cap'), ('caps2', 'has_capabilities has_caps'), ('kana', 'contains_kana kana'), ('agg', 'count COUNT Count')]:
    OBLIGATIONS.append(ob(f'C11.alias.function.{h}', 'function::verif_kani_names::c11_fn_' + h, f'Function::from_str maps the documented spellings ({sp}, plus upper / mixed case) to the same function', engine='K', units=['functionnames']))
OBLIGATIONS.append(ob('C11.lexer.words', 'verif_frag::lexwords::c11_lexer_words', 'keyword table of Lexer::next_lexem (verbatim match block on a shim lexer): every documented operator word (eq ne eeq ene gt lt ge le gte lte regexp rx notrx like notlike between) lexes to an Operator token, every arithmetic word (plus minus mul div mod) to an ArithmeticOperator token, the clause keywords (from where or and order by desc limit into; not after WHERE) to their keyword tokens - in lower, UPPER and Capitalised spelling', units=['lexwords']))
OBLIGATIONS.append(ob('C11.lexer.words.lw_ops_1', 'verif_frag::lexwords::lw_ops_1', 'part of C11.lexer.words: see harness/frag_lexwords.kani.rs lw_ops_1', units=['lexwords']))
OBLIGATIONS.append(ob('C11.lexer.words.lw_ops_2', 'verif_frag::lexwords::lw_ops_2', 'part of C11.lexer.words: see harness/frag_lexwords.kani.rs lw_ops_2', units=['lexwords']))
OBLIGATIONS.append(ob('C11.lexer.words.lw_ops_3', 'verif_frag::lexwords::lw_ops_3', 'part of C11.lexer.words: see harness/frag_lexwords.kani.rs lw_ops_3', units=['lexwords']))
OBLIGATIONS.append(ob('C11.lexer.words.lw_ops_4', 'verif_frag::lexwords::lw_ops_4', 'part of C11.lexer.words: see harness/frag_lexwords.kani.rs lw_ops_4', units=['lexwords']))
OBLIGATIONS.append(ob('C11.lexer.words.lw_arith', 'verif_frag::lexwords::lw_arith', 'part of C11.lexer.words: see harness/frag_lexwords.kani.rs lw_arith', units=['lexwords']))
OBLIGATIONS.append(ob('C11.lexer.words.lw_keywords', 'verif_frag::lexwords::lw_keywords', 'part of C11.lexer.words: see harness/frag_lexwords.kani.rs lw_keywords', units=['lexwords']))
OBLIGATIONS.append(ob('C11.lexer.asc', 'verif_frag::lexwords::c11_lexer_asc', 'an explicit `asc` is skipped (the next token is returned) and an ordinary word stays a RawString with its original spelling', units=['lexwords']))
OBLIGATIONS.append(ob('C11.between.case', BETW + 'c11_between_case', 'the BETWEEN guard of parse_cond accepts between / BETWEEN / Between and rejects other operator words', units=['cmp', 'between'], complete=False, bound='5 concrete spellings'))
OBLIGATIONS.append(dict(id='C11.noparens', engine='V', verus_fn='Parser::parse_function', label='C11.noparens', complete=True, bound=None, units=[], harness='verus:Parser::parse_function', tier='quick',
    desc='real parse_function, every token vector: for a function that takes no arguments, when the next token is not an opening bracket the call is returned and the cursor is left on that token (so `curdate` and `curdate()` parse the same)'))
OBLIGATIONS.append(dict(id='C11.brackets', engine='V', verus_fn='Parser::parse_paren', label='C11.brackets', complete=True, bound=None, units=[], harness='verus:Parser::parse_paren', tier='quick',
    desc='real parse_paren, every token vector: a round-bracketed expression is accepted only when closed by a round bracket, a curly one only by a curly bracket; the bracketed expression is returned unchanged (both styles mean the same)'))
CANARIES = [dict(harness=OPS + 'canary_ops_must_fail', units=['operators']), dict(harness=FIELD + 'canary_field_must_fail', units=['fieldclass']), dict(harness='verif_frag::lexwords::canary_lexwords_must_fail', units=['lexwords']), dict(harness='function::verif_kani_names::canary_fnnames_must_fail', units=['functionnames'])]
ASSUMPTIONS = ['the alias tables are finite: "complete" means every documented spelling, in lower and upper case, is enumerated']
NOT_COVERED = ['whitespace-split invariance, bracket styles, optional tokens (the real Lexer on the 3-word query `name from /x` does not finish in 300 s in CBMC: measured, removed)', 'root-option aliases: the real parse_root_options on one concrete word exhausts memory / 300 s in CBMC (measured) - only its panic freedom and termination are proved (Verus, under C10)']
HARNESS_TIMEOUT = 300
