fn world(aggregate: bool, colors: bool) -> Searcher {
    let q: &'static Query = Box::leak(Box::new(Query {
        fields: vec![Expr { id: 1, colorized: false }, Expr { id: 2, colorized: false }],
        grouping_fields: Rc::new(vec![Expr { id: 3, colorized: false }]),
        ordering_fields: Rc::new(vec![Expr { id: 2, colorized: false }, Expr { id: 4, colorized: false }]) }));
    Searcher { query: q, use_colors: colors, aggregate, evaluated: Vec::new(), colorized: 0 }
}
// C07 / C15: every select-list column is evaluated for every accepted entry - also in an aggregate query, whose aggregates read the
// values this evaluation leaves in the per-entry map - once, in order, and shown next to its own expression text.
// C05: sort key i of the row is the value of ORDER BY expression i (taken from the map when the column already produced it).
#[kani::proof]
#[kani::unwind(10)]
fn c07_columns_evaluated() {
    let aggregate: bool = kani::any();
    kani::cover!(aggregate);
    kani::cover!(!aggregate);
    let mut w = world(aggregate, false);
    let (items, criteria, map) = w.frag_columns(&DirEntry, &None, FileMap::new(), vec![Txt(0), Txt(0)]);
    // (how the values get there is left free: only a row that is printed must show them)
    if !aggregate {
        assert!(items.len() == 2 && items[0] == (Txt(1), Txt(101)) && items[1] == (Txt(2), Txt(102)), "OBL C07.columns.evaluated: a column shows the value of its own expression");
    }
    assert!(map.get(&Txt(1)) == Some(&Txt(101)) && map.get(&Txt(2)) == Some(&Txt(102)), "OBL C07.columns.evaluated: the values reach the per-entry map the aggregates are computed from");
    assert!(map.get(&Txt(3)) == Some(&Txt(103)), "OBL C07.columns.evaluated: a GROUP BY key that is not selected is evaluated too");
    assert!(criteria.len() == 2 && criteria[0] == Txt(102) && criteria[1] == Txt(104), "OBL C05.key.values: sort key i is the value of ORDER BY expression i");
    assert!(w.colorized == 0, "OBL C07.columns.evaluated: no colour without use_colors");
}
#[kani::proof]
#[kani::unwind(10)]
fn canary_rowcolumns_must_fail() {
    let mut w = world(false, false);
    let (items, _c, _m) = w.frag_columns(&DirEntry, &None, FileMap::new(), vec![Txt(0), Txt(0)]);
    assert!(items.len() == 1, "CANARY must fail");
}
