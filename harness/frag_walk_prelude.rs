// Shim world for the WHOLE Searcher::visit_dir and ok_to_visit_dir (Engine F; C01 / C06 / C18): a scripted file system (six-node and 13-node variants), no heap.
//   0 = the root directory          1 = dir  in 0 (level 1)      2 = file in 0 (level 1; a zip archive with two members)
//   3 = file in 1 (level 2)         4 = dir  in 1 (level 2)      5 = file in 4 (level 3)
//   6 = symlink in 4 (level 3) -> directory 1, absolute target: a link to an ancestor (cycle)
//   7 = symlink in 0 (level 1) -> directory 8, RELATIVE target (relative to the directory of the link)
//   8 = a directory outside the root that lies LESS deep than the root        9 = file in 8
//  10 = symlink in 0 (level 1) -> file 2 (a link to a non-directory)           11 = dangling symlink in 0 (level 1)
//  12 = symlink in 4 (level 3) -> the search ROOT itself, absolute target
// Paths are node ids; read_dir lists the children in the order above; check_file is a recorder that counts in `found` like the real one.
use core::mem::MaybeUninit;
pub use crate::query::TraversalMode;
pub use crate::query::TraversalMode::Bfs;
/*FS_TABLES*/
// a path names a node; `1` = a relative link target that has not been joined with the directory of its link (it means nothing by itself)
#[derive(Clone, Copy, PartialEq, Eq, Debug)] pub struct Path(pub u8, pub bool);
#[derive(Clone, Copy, PartialEq, Eq, Debug)] pub struct PathBuf(pub Path);
/*FS_PATHS*/
impl core::ops::Deref for PathBuf { type Target = Path; fn deref(&self) -> &Path { &self.0 } }
impl Path {
    pub fn to_path_buf(&self) -> PathBuf { PathBuf(*self) }
    pub fn to_string_lossy(&self) -> String { String(self.0) }
    pub fn parent(&self) -> Option<&Path> { let p = PARENT[self.0 as usize]; if self.1 || p == 255 || self.0 == 0 { None } else { Some(&PATHS[p as usize]) } }
    pub fn is_relative(&self) -> bool { self.1 }
    // joining a relative target with the directory of its link gives the node the link points to
    pub fn join(&self, rel: PathBuf) -> PathBuf { PathBuf(Path(rel.0 .0, false)) }
    pub fn canonicalize(&self) -> io::Result<PathBuf> { if self.1 { Err(IoError) } else { Ok(PathBuf(*self)) } }
    pub fn is_dir(&self) -> bool { !self.1 && (self.0 as usize) < N && IS_DIR[self.0 as usize] }
}
impl PathBuf { pub fn from(s: String) -> PathBuf { PathBuf(Path(s.0, false)) } }
#[derive(Clone, Copy, PartialEq, Eq, Debug)] pub struct String(pub u8);
impl String {
    pub fn from(_s: &str) -> String { String(255) }
    pub fn add(self, _s: &str) -> String { self }
    pub fn as_str(&self) -> &str { "" }
    pub fn as_ref(&self) -> &String { self }
}
// ---- scripted faults (all off unless a harness switches them on) and a record of the diagnostics ----
pub static mut UNLISTABLE: u8 = 255;        // read_dir of this directory fails (permission denied)
pub static mut BAD_ENTRY_IN: u8 = 255;      // listing this directory yields one unreadable entry (an Err item) in front of its entries
pub static mut NO_FILETYPE: u8 = 255;       // file_type() of this entry fails
pub static mut ZIP_CORRUPT: bool = false;   // the archive cannot be opened as a zip
pub static mut ZIP_BAD_MEMBER: u8 = 255;    // by_index(i) fails for this member index
pub static mut REJECT: u8 = 255;            // the WHERE filter rejects this entry / member (recorder code): nothing is written, nothing is counted
pub static mut PIPE_CLOSED_AFTER: u32 = u32::MAX;   // check_file reports a closed pipe (Ok(false)) once this many rows were written
pub static mut DIAG_COUNT: u32 = 0;
pub static mut DIAG_LAST: u8 = 255;
pub fn reset_faults() { unsafe { UNLISTABLE = 255; BAD_ENTRY_IN = 255; NO_FILETYPE = 255; ZIP_CORRUPT = false; ZIP_BAD_MEMBER = 255; PIPE_CLOSED_AFTER = u32::MAX; REJECT = 255; DIAG_COUNT = 0; DIAG_LAST = 255; } }
pub fn error_message(a: &String, _b: &str) { unsafe { DIAG_COUNT += 1; DIAG_LAST = a.0; } }
pub fn path_error_message(p: &Path, _e: IoError) { unsafe { DIAG_COUNT += 1; DIAG_LAST = p.0; } }
pub mod util_shim {
    use super::*;
    pub fn canonical_path(p: &PathBuf) -> Result<String, String> { if p.0 .1 || p.0 .0 as usize >= N { Err(String(255)) } else { Ok(String(p.0 .0)) } }
    pub fn calc_depth(s: &String) -> u32 { CDEPTH[s.0 as usize] }
}
#[derive(Debug)] pub struct IoError;
pub mod io { pub type Result<T> = core::result::Result<T, super::IoError>; }
#[derive(Clone, Copy)] pub struct FileType { pub dir: bool, pub link: bool }
impl FileType { pub fn is_dir(&self) -> bool { self.dir } pub fn is_symlink(&self) -> bool { self.link } }
#[derive(Clone, Copy)] pub struct DirEntry(pub u8);
impl DirEntry {
    pub fn path(&self) -> PathBuf { PathBuf(Path(self.0, false)) }
    pub fn file_type(&self) -> io::Result<FileType> { if unsafe { NO_FILETYPE } == self.0 { return Err(IoError); } Ok(FileType { dir: IS_DIR[self.0 as usize], link: IS_LINK[self.0 as usize] }) }
    pub fn ino(&self) -> u64 { self.0 as u64 }
}
pub struct ReadDir { pub dir: u8, pub next: u8, pub bad_pending: bool }
impl Iterator for ReadDir { type Item = io::Result<DirEntry>;
    fn next(&mut self) -> Option<io::Result<DirEntry>> {
        if self.bad_pending { self.bad_pending = false; return Some(Err(IoError)); }
        while (self.next as usize) < N { let c = self.next; self.next += 1; if c != 0 && PARENT[c as usize] == self.dir { return Some(Ok(DirEntry(c))); } }
        None
    } }
pub struct File;
pub mod fs {
    use super::*;
    pub fn read_dir(p: &Path) -> io::Result<ReadDir> { if p.1 || p.0 as usize >= N || !IS_DIR[p.0 as usize] || unsafe { UNLISTABLE } == p.0 { Err(IoError) } else { Ok(ReadDir { dir: p.0, next: 1, bad_pending: unsafe { BAD_ENTRY_IN } == p.0 }) } }
    pub struct File;
    // node 2 is a zip archive with two members
    impl File { pub fn open(p: &PathBuf) -> io::Result<super::File> { if p.0 .0 == 2 { Ok(super::File) } else { Err(IoError) } } }
}
pub mod std { pub mod fs { use super::super::*; pub fn read_link(p: &PathBuf) -> io::Result<PathBuf> { let n = p.0 .0 as usize; if IS_LINK[n] { Ok(PathBuf(Path(TARGET[n], TARGET_RELATIVE[n]))) } else { Err(IoError) } } } }
pub mod zip { use super::*; pub struct ZipFile(pub u8); pub struct ZipArchive;
    // like the real ZipError, the archive error converts into an I/O error (so that `?` on it compiles, as it does in the crate)
    #[derive(Debug)] pub struct ZipError; impl From<ZipError> for IoError { fn from(_e: ZipError) -> IoError { IoError } }
    impl ZipArchive { pub fn new(_f: File) -> Result<ZipArchive, ZipError> { if unsafe { ZIP_CORRUPT } { Err(ZipError) } else { Ok(ZipArchive) } } pub fn len(&self) -> usize { 2 }
        pub fn by_index(&mut self, i: usize) -> Result<ZipFile, ZipError> { if unsafe { ZIP_BAD_MEMBER } as usize == i { Err(ZipError) } else { Ok(ZipFile(i as u8 + 1)) } } } }
pub struct FileInfo(pub u8);
pub fn to_file_info(f: &zip::ZipFile) -> FileInfo { FileInfo(f.0) }
pub struct Repository;
impl Repository { pub fn is_path_ignored(&self, _p: &PathBuf) -> Result<bool, ()> { Ok(false) } pub fn open(_p: &PathBuf) -> Result<Repository, ()> { Err(()) } }
pub struct Filters;
pub fn matches_hgignore_filter(_f: &Filters, _s: &String) -> bool { false }
pub fn matches_dockerignore_filter(_f: &Filters, _s: &String) -> bool { false }
pub struct InoSet { pub seen: [bool; N] }
impl InoSet { pub fn contains(&self, i: &u64) -> bool { self.seen[*i as usize] } pub fn insert(&mut self, i: u64) -> bool { let was = self.seen[i as usize]; self.seen[i as usize] = true; !was } }
pub struct Set { pub seen: [bool; N] }
impl Set { pub fn contains(&self, p: &PathBuf) -> bool { self.seen[p.0 .0 as usize] } pub fn insert(&mut self, p: PathBuf) -> bool { let was = self.seen[p.0 .0 as usize]; self.seen[p.0 .0 as usize] = true; !was } }
pub struct Queue { pub items: [(u8, bool); N], pub head: usize, pub tail: usize }
impl Queue {
    pub fn push_back(&mut self, p: PathBuf) { if self.tail < N { self.items[self.tail] = (p.0 .0, p.0 .1); self.tail += 1; } else { kani::assume(false); } }
    pub fn pop_front(&mut self) -> Option<PathBuf> { if self.head < self.tail { let v = self.items[self.head]; self.head += 1; Some(PathBuf(Path(v.0, v.1))) } else { None } }
    pub fn is_empty(&self) -> bool { self.head == self.tail }
}
pub struct Query { pub limit: u32 }
pub struct Searcher { pub query: Query, pub found: u32, pub buffered: bool, pub current_follow_symlinks: bool, pub visited_dirs: Set, pub visited_inodes: InoSet,
                      pub dir_queue: Queue, pub error_count: i32, pub hgignore_filters: Filters, pub dockerignore_filters: Filters,
                      pub log: [u8; 12], pub n: usize }
impl Searcher {
    pub fn is_buffered(&self) -> bool { self.buffered }
    pub fn is_zip_archive(&self, s: &String) -> bool { s.0 == 2 }
    // stands for check_file with no WHERE clause: every entry handed over is counted (C06.found.accounting) and recorded
    // an archive member is recorded as 10 * member + entry
    pub fn check_file(&mut self, e: &DirEntry, fi: &Option<FileInfo>) -> io::Result<bool> { let code = match fi { Some(m) => 10 * m.0 + e.0, None => e.0 }; if unsafe { REJECT } == code { return Ok(true); } if unsafe { PIPE_CLOSED_AFTER } <= self.found { return Ok(false); } if self.n < 12 { self.log[self.n] = code; self.n += 1; } self.found += 1; Ok(true) }
}
