// Shim world for the WHOLE Searcher::visit_dir (Engine F; C01 / C06): a scripted file system of six nodes, no heap.
//   0 = the root directory          1 = dir  in 0 (level 1)      2 = file in 0 (level 1)
//   3 = file in 1 (level 2)         4 = dir  in 1 (level 2)      5 = file in 4 (level 3)
// Paths are node ids; read_dir lists the children in the order above; check_file is a recorder that counts in `found` like the real one.
use core::mem::MaybeUninit;
pub use crate::query::TraversalMode;
pub use crate::query::TraversalMode::Bfs;
pub const N: usize = 6;
pub const ROOT_DEPTH: u32 = 3;          // the root is /a/b/root
pub const PARENT: [u8; N] = [0, 0, 0, 1, 1, 4];
pub const IS_DIR: [bool; N] = [true, true, false, false, true, false];
pub const LEVEL: [u32; N] = [0, 1, 1, 2, 2, 3];
#[derive(Clone, Copy, PartialEq, Eq, Debug)] pub struct Path(pub u8);
#[derive(Clone, Copy, PartialEq, Eq, Debug)] pub struct PathBuf(pub Path);
impl core::ops::Deref for PathBuf { type Target = Path; fn deref(&self) -> &Path { &self.0 } }
impl Path { pub fn to_path_buf(&self) -> PathBuf { PathBuf(*self) } pub fn to_string_lossy(&self) -> String { String(self.0) } }
impl PathBuf { pub fn from(s: String) -> PathBuf { PathBuf(Path(s.0)) } }
#[derive(Clone, Copy, PartialEq, Eq, Debug)] pub struct String(pub u8);
impl String {
    pub fn from(_s: &str) -> String { String(255) }
    pub fn add(self, _s: &str) -> String { self }
    pub fn as_str(&self) -> &str { "" }
    pub fn as_ref(&self) -> &String { self }
}
pub fn error_message(_a: &String, _b: &str) {}
pub fn path_error_message(_p: &Path, _e: IoError) {}
pub mod util_shim {
    use super::*;
    pub fn canonical_path(p: &PathBuf) -> Result<String, String> { Ok(String(p.0 .0)) }
    pub fn calc_depth(s: &String) -> u32 { ROOT_DEPTH + LEVEL[s.0 as usize] }
}
#[derive(Debug)] pub struct IoError;
pub mod io { pub type Result<T> = core::result::Result<T, super::IoError>; }
#[derive(Clone, Copy)] pub struct FileType { pub dir: bool, pub link: bool }
impl FileType { pub fn is_dir(&self) -> bool { self.dir } pub fn is_symlink(&self) -> bool { self.link } }
#[derive(Clone, Copy)] pub struct DirEntry(pub u8);
impl DirEntry {
    pub fn path(&self) -> PathBuf { PathBuf(Path(self.0)) }
    pub fn file_type(&self) -> io::Result<FileType> { Ok(FileType { dir: IS_DIR[self.0 as usize], link: false }) }
}
pub struct ReadDir { pub dir: u8, pub next: u8 }
impl Iterator for ReadDir { type Item = io::Result<DirEntry>;
    fn next(&mut self) -> Option<io::Result<DirEntry>> {
        while (self.next as usize) < N { let c = self.next; self.next += 1; if c != 0 && PARENT[c as usize] == self.dir { return Some(Ok(DirEntry(c))); } }
        None
    } }
pub struct File;
pub mod fs {
    use super::*;
    pub fn read_dir(p: &Path) -> io::Result<ReadDir> { Ok(ReadDir { dir: p.0, next: 1 }) }
    pub struct File;
    // node 2 is a zip archive with two members
    impl File { pub fn open(p: &PathBuf) -> io::Result<super::File> { if p.0 .0 == 2 { Ok(super::File) } else { Err(IoError) } } }
}
pub mod std { pub mod fs { use super::super::*; pub fn read_link(_p: &PathBuf) -> io::Result<PathBuf> { Err(IoError) } } }
pub mod zip { use super::*; pub struct ZipFile(pub u8); pub struct ZipArchive;
    impl ZipArchive { pub fn new(_f: File) -> Result<ZipArchive, ()> { Ok(ZipArchive) } pub fn len(&self) -> usize { 2 } pub fn by_index(&mut self, i: usize) -> Result<ZipFile, ()> { Ok(ZipFile(i as u8 + 1)) } } }
pub struct FileInfo(pub u8);
pub fn to_file_info(f: &zip::ZipFile) -> FileInfo { FileInfo(f.0) }
pub struct Repository;
impl Repository { pub fn is_path_ignored(&self, _p: &PathBuf) -> Result<bool, ()> { Ok(false) } pub fn open(_p: &PathBuf) -> Result<Repository, ()> { Err(()) } }
pub struct Filters;
pub fn matches_hgignore_filter(_f: &Filters, _s: &String) -> bool { false }
pub fn matches_dockerignore_filter(_f: &Filters, _s: &String) -> bool { false }
pub struct Set { pub seen: [bool; N] }
impl Set { pub fn contains(&self, p: &PathBuf) -> bool { self.seen[p.0 .0 as usize] } pub fn insert(&mut self, p: PathBuf) -> bool { let was = self.seen[p.0 .0 as usize]; self.seen[p.0 .0 as usize] = true; !was } }
pub struct Queue { pub items: [u8; N], pub head: usize, pub tail: usize }
impl Queue {
    pub fn push_back(&mut self, p: PathBuf) { if self.tail < N { self.items[self.tail] = p.0 .0; self.tail += 1; } else { kani::assume(false); } }
    pub fn pop_front(&mut self) -> Option<PathBuf> { if self.head < self.tail { let v = self.items[self.head]; self.head += 1; Some(PathBuf(Path(v))) } else { None } }
    pub fn is_empty(&self) -> bool { self.head == self.tail }
}
pub struct Query { pub limit: u32 }
pub struct Searcher { pub query: Query, pub found: u32, pub buffered: bool, pub current_follow_symlinks: bool, pub visited_dirs: Set, pub visited_entries: [bool; N],
                      pub dir_queue: Queue, pub error_count: i32, pub hgignore_filters: Filters, pub dockerignore_filters: Filters,
                      pub log: [u8; 8], pub n: usize }
impl Searcher {
    pub fn is_buffered(&self) -> bool { self.buffered }
    pub fn is_zip_archive(&self, s: &String) -> bool { s.0 == 2 }
    // stands for check_file with no WHERE clause: every entry handed over is counted (C06.found.accounting) and recorded
    // an archive member is recorded as 10 * member + entry
    pub fn check_file(&mut self, e: &DirEntry, fi: &Option<FileInfo>) -> io::Result<bool> { let code = match fi { Some(m) => 10 * m.0 + e.0, None => e.0 }; if self.n < 8 { self.log[self.n] = code; self.n += 1; } self.found += 1; Ok(true) }
    // stands for ok_to_visit_dir (C01.ok_to_visit): a directory is entered once
    pub fn ok_to_visit_dir(&mut self, e: &DirEntry, _t: FileType) -> bool { let was = self.visited_entries[e.0 as usize]; self.visited_entries[e.0 as usize] = true; !was }
}
