// Appended to the scratch copy of src/mode.rs (never to /repo). Engine K.
// Oracles are written from POSIX <sys/stat.h> and `ls -l` notation (the property statement),
// not from the code under test.
#[cfg(kani)]
pub(crate) mod verif_kani {
    use super::*;

    pub const IFMT: u32 = 0o170000;
    pub const T_FIFO: u32 = 0o010000;
    pub const T_CHR: u32 = 0o020000;
    pub const T_DIR: u32 = 0o040000;
    pub const T_BLK: u32 = 0o060000;
    pub const T_REG: u32 = 0o100000;
    pub const T_LNK: u32 = 0o120000;
    pub const T_SOCK: u32 = 0o140000;

    /// `mode` carries one of the seven POSIX file types (what lstat / a zip unix-mode can hold).
    pub fn valid_type(mode: u32) -> bool {
        let t = mode & IFMT;
        t == T_FIFO || t == T_CHR || t == T_DIR || t == T_BLK || t == T_REG || t == T_LNK || t == T_SOCK
    }
    pub fn bit(mode: u32, b: u32) -> bool { (mode & b) != 0 }
    pub fn is_type(mode: u32, t: u32) -> bool { (mode & IFMT) == t }

    pub fn spec_type_char(mode: u32) -> char {
        match mode & IFMT {
            T_LNK => 'l', T_BLK => 'b', T_CHR => 'c', T_SOCK => 's', T_FIFO => 'p', T_DIR => 'd', _ => '-',
        }
    }
    pub fn spec_x(r_x: bool, special: bool, lower: char, upper: char) -> char {
        if r_x { if special { lower } else { 'x' } } else if special { upper } else { '-' }
    }
    /// `ls -l` rendering of the low 12 bits + type.
    pub fn spec_mode_char(mode: u32, i: usize) -> char {
        match i {
            0 => spec_type_char(mode),
            1 => if bit(mode, 0o400) { 'r' } else { '-' },
            2 => if bit(mode, 0o200) { 'w' } else { '-' },
            3 => spec_x(bit(mode, 0o100), bit(mode, 0o4000), 's', 'S'),
            4 => if bit(mode, 0o040) { 'r' } else { '-' },
            5 => if bit(mode, 0o020) { 'w' } else { '-' },
            6 => spec_x(bit(mode, 0o010), bit(mode, 0o2000), 's', 'S'),
            7 => if bit(mode, 0o004) { 'r' } else { '-' },
            8 => if bit(mode, 0o002) { 'w' } else { '-' },
            _ => spec_x(bit(mode, 0o001), bit(mode, 0o1000), 't', 'T'),
        }
    }
    pub fn post_mode_string(mode: u32, s: &String) -> bool {
        let b = s.as_bytes();
        if b.len() != 10 { return false; }
        let mut ok = true;
        let mut i = 0;
        while i < 10 {
            ok = ok && (b[i] as char) == spec_mode_char(mode, i);
            i += 1;
        }
        ok
    }

    // ---- leaf contracts: proof_for_contract -----------------------------------------------------
    macro_rules! leaf {
        ($h:ident, $f:ident) => {
            #[kani::proof_for_contract($f)]
            fn $h() { let m: u32 = kani::any(); let _ = $f(m); kani::cover!(true); }
        };
    }
    leaf!(c04_user_read, mode_user_read);
    leaf!(c04_user_write, mode_user_write);
    leaf!(c04_user_exec, mode_user_exec);
    leaf!(c04_group_read, mode_group_read);
    leaf!(c04_group_write, mode_group_write);
    leaf!(c04_group_exec, mode_group_exec);
    leaf!(c04_other_read, mode_other_read);
    leaf!(c04_other_write, mode_other_write);
    leaf!(c04_other_exec, mode_other_exec);
    leaf!(c04_suid, mode_suid);
    leaf!(c04_sgid, mode_sgid);
    leaf!(c04_sticky, mode_sticky);
    leaf!(c04_is_pipe, mode_is_pipe);
    leaf!(c04_is_char, mode_is_char_device);
    leaf!(c04_is_block, mode_is_block_device);
    leaf!(c04_is_socket, mode_is_socket);
    leaf!(c04_is_dir, mode_is_directory);
    leaf!(c04_is_link, mode_is_link);

    // ---- composites: callers see only the callees' contracts (stub_verified) ----------------------
    #[kani::proof_for_contract(mode_user_all)]
    #[kani::stub_verified(mode_user_read)]
    #[kani::stub_verified(mode_user_write)]
    #[kani::stub_verified(mode_user_exec)]
    fn c04_user_all() { let m: u32 = kani::any(); let _ = mode_user_all(m); kani::cover!(true); }

    #[kani::proof_for_contract(mode_group_all)]
    #[kani::stub_verified(mode_group_read)]
    #[kani::stub_verified(mode_group_write)]
    #[kani::stub_verified(mode_group_exec)]
    fn c04_group_all() { let m: u32 = kani::any(); let _ = mode_group_all(m); kani::cover!(true); }

    #[kani::proof_for_contract(mode_other_all)]
    #[kani::stub_verified(mode_other_read)]
    #[kani::stub_verified(mode_other_write)]
    #[kani::stub_verified(mode_other_exec)]
    fn c04_other_all() { let m: u32 = kani::any(); let _ = mode_other_all(m); kani::cover!(true); }

    // get_mode_unix: postcondition asserted on the real body and the real bodies of the 18 predicates it
    // calls. (Measured: as #[kani::proof_for_contract] - with or without 18 stub_verified attributes - CBMC
    // does not finish in 600 s; the plain harness below takes ~10 s.)
    #[kani::proof]
    fn c04_mode_string() {
        let m: u32 = kani::any();
        kani::assume(valid_type(m));
        let s = get_mode_unix(m);
        kani::cover!(true);
        assert!(post_mode_string(m, &s), "OBL C04.mode.string get_mode_unix");
    }

    // format_mode is the public entry used by the searcher for zip entries: same contract, callee
    // replaced by its contract is not possible (String is not Arbitrary), so it is proved on the body.
    #[kani::proof]
    fn c04_format_mode() {
        let m: u32 = kani::any();
        kani::assume(valid_type(m));
        let s = format_mode(m);
        kani::cover!(true);
        assert!(post_mode_string(m, &s), "OBL C04.mode.string.format_mode");
    }

    // ---- property-level lemma over the contracts: exactly one type boolean, agreeing with char 0 ----
    // is_file / is_dir / is_symlink for real entries come from std's FileType (trusted T2/T4); for the
    // mode-derived booleans the lemma below is proved from the leaf contracts only.
    #[kani::proof]
    #[kani::stub_verified(mode_is_pipe)]
    #[kani::stub_verified(mode_is_char_device)]
    #[kani::stub_verified(mode_is_block_device)]
    #[kani::stub_verified(mode_is_socket)]
    #[kani::stub_verified(mode_is_directory)]
    #[kani::stub_verified(mode_is_link)]
    fn c04_type_exclusive() {
        let m: u32 = kani::any();
        kani::assume(valid_type(m));
        let flags = [mode_is_pipe(m), mode_is_char_device(m), mode_is_block_device(m), mode_is_socket(m),
                     mode_is_directory(m), mode_is_link(m), is_type(m, T_REG)];
        let mut n = 0;
        let mut i = 0;
        while i < 7 { if flags[i] { n += 1; } i += 1; }
        kani::cover!(true);
        assert!(n == 1, "OBL C04.type.exclusive: exactly one file-type fact holds");
        let c = spec_type_char(m);
        assert!(flags[0] == (c == 'p') && flags[1] == (c == 'c') && flags[2] == (c == 'b')
                && flags[3] == (c == 's') && flags[4] == (c == 'd') && flags[5] == (c == 'l')
                && flags[6] == (c == '-'), "OBL C04.type.exclusive: boolean agrees with mode char 0");
    }

    // ---- plain-assert twins (used for native replay: contract closures are compiled out there) ----
    macro_rules! twin_bit {
        ($h:ident, $f:ident, $b:expr) => {
            #[kani::proof]
            fn $h() { let m: u32 = kani::any(); kani::cover!(true);
                      assert!($f(m) == bit(m, $b), concat!("OBL twin ", stringify!($f))); }
        };
    }
    twin_bit!(t04_user_read, mode_user_read, 0o400);
    twin_bit!(t04_user_write, mode_user_write, 0o200);
    twin_bit!(t04_user_exec, mode_user_exec, 0o100);
    twin_bit!(t04_group_read, mode_group_read, 0o040);
    twin_bit!(t04_group_write, mode_group_write, 0o020);
    twin_bit!(t04_group_exec, mode_group_exec, 0o010);
    twin_bit!(t04_other_read, mode_other_read, 0o004);
    twin_bit!(t04_other_write, mode_other_write, 0o002);
    twin_bit!(t04_other_exec, mode_other_exec, 0o001);
    twin_bit!(t04_suid, mode_suid, 0o4000);
    twin_bit!(t04_sgid, mode_sgid, 0o2000);
    twin_bit!(t04_sticky, mode_sticky, 0o1000);
    macro_rules! twin_all {
        ($h:ident, $f:ident, $b:expr) => {
            #[kani::proof]
            fn $h() { let m: u32 = kani::any(); kani::cover!(true);
                      assert!($f(m) == ((m & $b) == $b), concat!("OBL twin ", stringify!($f))); }
        };
    }
    twin_all!(t04_user_all, mode_user_all, 0o700);
    twin_all!(t04_group_all, mode_group_all, 0o070);
    twin_all!(t04_other_all, mode_other_all, 0o007);
    macro_rules! twin_type {
        ($h:ident, $f:ident, $t:expr) => {
            #[kani::proof]
            fn $h() { let m: u32 = kani::any(); kani::assume(valid_type(m)); kani::cover!(true);
                      assert!($f(m) == is_type(m, $t), concat!("OBL twin ", stringify!($f))); }
        };
    }
    twin_type!(t04_is_pipe, mode_is_pipe, T_FIFO);
    twin_type!(t04_is_char, mode_is_char_device, T_CHR);
    twin_type!(t04_is_block, mode_is_block_device, T_BLK);
    twin_type!(t04_is_socket, mode_is_socket, T_SOCK);
    twin_type!(t04_is_dir, mode_is_directory, T_DIR);
    twin_type!(t04_is_link, mode_is_link, T_LNK);
    #[kani::proof]
    fn t04_type_exclusive() {
        let m: u32 = kani::any();
        kani::assume(valid_type(m));
        let flags = [mode_is_pipe(m), mode_is_char_device(m), mode_is_block_device(m), mode_is_socket(m),
                     mode_is_directory(m), mode_is_link(m), is_type(m, T_REG)];
        let mut n = 0;
        let mut i = 0;
        while i < 7 { if flags[i] { n += 1; } i += 1; }
        kani::cover!(true);
        assert!(n == 1, "OBL twin type.exclusive");
    }

    // ---- wrappers over &Metadata: st_mode is read through get_mode_from_boxed_unix_int, which is
    // replaced by a symbolic Option<u32> (the OS value is trusted, T4). --------------------------------
    pub static mut SYM_MODE: Option<u32> = None;
    pub fn stub_get_mode(_meta: &Metadata) -> Option<u32> { unsafe { SYM_MODE } }
    fn any_meta() -> Metadata {
        // Metadata is plain data (struct stat + optional statx extras); its content is never read
        // because the only reader, get_mode_from_boxed_unix_int, is stubbed.
        unsafe { std::mem::zeroed() }
    }
    macro_rules! wire {
        ($h:ident, $w:ident, $f:ident) => {
            #[kani::proof]
            #[kani::stub(get_mode_from_boxed_unix_int, stub_get_mode)]
            #[kani::stub_verified($f)]
            fn $h() {
                let sm: Option<u32> = kani::any();
                if let Some(m) = sm { kani::assume(valid_type(m)); }
                unsafe { SYM_MODE = sm; }
                let meta = any_meta();
                let r = $w(&meta);
                kani::cover!(sm.is_some());
                match sm {
                    Some(m) => assert!(r == $f(m), concat!("OBL C04.meta.wiring ", stringify!($w))),
                    None => assert!(!r, concat!("OBL C04.meta.wiring(None) ", stringify!($w))),
                }
                std::mem::forget(meta);
            }
        };
    }
    wire!(w04_user_read, user_read, mode_user_read);
    wire!(w04_user_write, user_write, mode_user_write);
    wire!(w04_user_exec, user_exec, mode_user_exec);
    wire!(w04_group_read, group_read, mode_group_read);
    wire!(w04_group_write, group_write, mode_group_write);
    wire!(w04_group_exec, group_exec, mode_group_exec);
    wire!(w04_other_read, other_read, mode_other_read);
    wire!(w04_other_write, other_write, mode_other_write);
    wire!(w04_other_exec, other_exec, mode_other_exec);
    wire!(w04_suid, suid_bit_set, mode_suid);
    wire!(w04_sgid, sgid_bit_set, mode_sgid);
    wire!(w04_is_pipe, is_pipe, mode_is_pipe);
    wire!(w04_is_char, is_char_device, mode_is_char_device);
    wire!(w04_is_block, is_block_device, mode_is_block_device);
    wire!(w04_is_socket, is_socket, mode_is_socket);
    macro_rules! wire_all {
        ($h:ident, $w:ident, $b:expr) => {
            #[kani::proof]
            #[kani::stub(get_mode_from_boxed_unix_int, stub_get_mode)]
            fn $h() {
                let sm: Option<u32> = kani::any();
                unsafe { SYM_MODE = sm; }
                let meta = any_meta();
                let r = $w(&meta);
                kani::cover!(sm.is_some());
                match sm {
                    Some(m) => assert!(r == ((m & $b) == $b), concat!("OBL C04.meta.wiring ", stringify!($w))),
                    None => assert!(!r, concat!("OBL C04.meta.wiring(None) ", stringify!($w))),
                }
                std::mem::forget(meta);
            }
        };
    }
    wire_all!(w04_user_all, user_all, 0o700);
    wire_all!(w04_group_all, group_all, 0o070);
    wire_all!(w04_other_all, other_all, 0o007);

    // ---- canary: must FAIL (vacuity / machinery guard) -----------------------------------------------
    #[kani::proof]
    fn canary_mode_must_fail() {
        let m: u32 = kani::any();
        kani::assume(m == 0o400);
        assert!(!mode_user_read(m), "CANARY must fail");
    }
}
