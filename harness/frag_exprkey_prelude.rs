// shim types with the field names of the real crate::expr::Expr
pub mod fmt { pub type Result = core::result::Result<(), ()>; }
pub struct Formatter { pub buf: String }
impl Formatter {
    pub fn write_str(&mut self, s: &str) -> fmt::Result { self.buf.push_str(s); Ok(()) }
    pub fn write_char(&mut self, c: char) -> fmt::Result { self.buf.push(c); Ok(()) }
}
#[derive(Clone, Copy, PartialEq)] pub enum Field { Name, Size }
impl Field { pub fn to_string(&self) -> String { String::from(match self { Field::Name => "Name", Field::Size => "Size" }) } }
#[derive(Clone, Copy, PartialEq)] pub enum Function { Substring, Length }
impl Function { pub fn to_string(&self) -> String { String::from(match self { Function::Substring => "Substring", Function::Length => "Length" }) } }
// children are held by 'static references (leaked boxes): same field names and the same access syntax as the real
// struct, but no recursive drop glue (which makes CBMC explode)
pub struct Expr {
    pub left: Option<&'static Expr>, pub arithmetic_op: Option<ArithmeticOp>, pub logical_op: Option<LogicalOp>, pub op: Option<Op>,
    pub right: Option<&'static Expr>, pub minus: bool, pub field: Option<Field>, pub function: Option<Function>,
    pub args: Option<Vec<&'static Expr>>, pub val: Option<&'static str>,
}
fn leak(e: Expr) -> &'static Expr { Box::leak(Box::new(e)) }
impl Expr {
    pub fn to_string(&self) -> String { let mut f = Formatter { buf: String::new() }; let _ = self.fmt(&mut f); f.buf }
    pub fn leaf() -> Expr { Expr { left: None, arithmetic_op: None, logical_op: None, op: None, right: None, minus: false, field: None, function: None, args: None, val: None } }
    pub fn fld(f: Field) -> Expr { let mut e = Expr::leaf(); e.field = Some(f); e }
    pub fn lit(v: &'static str) -> Expr { let mut e = Expr::leaf(); e.val = Some(v); e }
    pub fn bin(l: Expr, o: ArithmeticOp, r: Expr) -> Expr { let mut e = Expr::leaf(); e.left = Some(leak(l)); e.arithmetic_op = Some(o); e.right = Some(leak(r)); e }
    pub fn call(f: Function, a: Expr, rest: Vec<Expr>) -> Expr {
        let mut e = Expr::leaf(); e.function = Some(f); e.left = Some(leak(a));
        let mut v = Vec::new(); for x in rest { v.push(leak(x)); } e.args = Some(v); e
    }
}
