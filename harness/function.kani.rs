// Appended to the scratch copy of src/function.rs. Engine K: literal coercions of the real Variant on concrete
// witnesses (symbolic string parsing does not terminate in CBMC).
#[cfg(kani)]
pub(crate) mod verif_kani {
    use super::*;
    fn lit(s: &str) -> Variant { Variant::from_string(&String::from(s)) }
    #[kani::proof]
    #[kani::unwind(24)]
    fn c15_negative_literal() {
        kani::cover!(true);
        assert!(lit("-5").to_int() == -5, "OBL C15.negative.literal: the literal -5 denotes -5");
        assert!(lit("5").to_int() == 5, "OBL C15.negative.literal: 5");
        assert!(lit("0").to_int() == 0, "OBL C15.negative.literal: 0");
        assert!(Variant::from_signed_string(&String::from("7"), true).to_int() == -7, "OBL C15.minus.literal: a leading minus negates a literal");
        assert!(Variant::from_signed_string(&String::from("7"), false).to_int() == 7, "OBL C15.minus.literal: no minus");
    }
    #[kani::proof]
    #[kani::unwind(24)]
    fn c02_literal_units() {
        kani::cover!(true);
        assert!(lit("2k").to_int() == 2048, "OBL C02.literal.coercion: a size literal with unit in an integer comparison");
        assert!(lit("1kb").to_int() == 1000, "OBL C02.literal.coercion: 1kb");
        assert!(lit("abc").to_int() == 0, "OBL C02.literal.coercion: a non-number compares as 0");
    }
    #[kani::proof]
    #[kani::unwind(24)]
    fn c02_bool_literals() {
        kani::cover!(true);
        assert!(lit("true").to_bool() && lit("TRUE").to_bool() && lit("1").to_bool() && lit("yes").to_bool() && lit("Yes").to_bool(), "OBL C02.bool.literal: true spellings");
        assert!(!lit("false").to_bool() && !lit("FALSE").to_bool() && !lit("0").to_bool() && !lit("no").to_bool(), "OBL C02.bool.literal: false spellings");
    }
    #[kani::proof]
    #[kani::unwind(24)]
    fn canary_function_must_fail() { assert!(lit("-5").to_int() == 5, "CANARY must fail"); }
}
