fn two_cols() -> Vec<Expr> { let mut v = Vec::new(); v.push(Expr { id: 1 }); v }   // one select column keeps CBMC within minutes
// ordered output: the buffered rows in buffer order, one separator between consecutive rows
#[kani::proof]
#[kani::unwind(5)]
fn c09_ordered_output() {
    let n: usize = 3;
    let mut s = searcher(true, false, true, Vec::new(), Vec::new(), 7);      // found (7) differs from the number of buffered rows
    let mut i = 0;
    while i < n { let mut t = String::new(); t.push((b'a' + i as u8) as char); s.output_buffer.rows.push((Vec::new(), t)); i += 1; }
    let r = s.frag_ordered_output();
    let log = log_take();
    kani::cover!(n == 3);
    assert!(r.is_ok(), "OBL C09.ordered.output");
    assert!(log.len() == if n == 0 { 0 } else { 2 * n - 1 }, "OBL C09.ordered.output: n rows and n - 1 separators");
    let mut k = 0;
    while k < n {
        assert!(log[2 * k] == b'a' + k as u8, "OBL C09.ordered.output: rows in buffer order");
        if k + 1 < n { assert!(log[2 * k + 1] == b'S', "OBL C09.ordered.output: one separator between consecutive rows, none after the last"); }
        k += 1;
    }
}
#[kani::proof]
#[kani::unwind(5)]
fn canary_rowflow_must_fail() {
    let mut s = searcher(true, false, true, Vec::new(), Vec::new(), 0);
    s.output_buffer.rows.push((Vec::new(), String::from("a")));
    let _ = s.frag_ordered_output();
    assert!(log_take().is_empty(), "CANARY must fail");
}
