// C16: documented behaviour of the string functions on concrete witnesses (BOUNDED: parsing a symbolic numeric
// argument string does not terminate in CBMC). Arguments arrive as strings, exactly as get_function_value passes them.
#[kani::proof]
#[kani::unwind(12)]
fn c16_substr_basic() {
    kani::cover!(true);
    assert!(is_str(&frag_fn_substring(sv("hello"), vec![sv("2")]), "ello"), "OBL C16.substr: 1-based position");
    assert!(is_str(&frag_fn_substring(sv("hello"), vec![sv("1")]), "hello"), "OBL C16.substr: position 1 is the first character");
    assert!(is_str(&frag_fn_substring(sv("hello"), vec![sv("2"), sv("3")]), "ell"), "OBL C16.substr: optional length");
    assert!(is_str(&frag_fn_substring(sv("hello"), vec![sv("5"), sv("9")]), "o"), "OBL C16.substr: length beyond the end");
    assert!(is_str(&frag_fn_substring(sv("hello"), vec![]), "hello"), "OBL C16.substr: no position");
}
#[kani::proof]
#[kani::unwind(24)]
fn c16_substr_negative() {
    kani::cover!(true);
    assert!(is_str(&frag_fn_substring(sv("hello"), vec![sv("-2")]), "lo"), "OBL C16.substr: negative position counts from the end");
    assert!(is_str(&frag_fn_substring(sv("hello"), vec![sv("-5")]), "hello"), "OBL C16.substr: -len is the whole string");
    assert!(is_str(&frag_fn_substring(sv("hello"), vec![sv("-3"), sv("2")]), "ll"), "OBL C16.substr: negative position with length");
    assert!(is_str(&frag_fn_substring(sv("hello"), vec![sv("9")]), ""), "OBL C16.substr: position beyond the end is empty");
    assert!(is_str(&frag_fn_substring(sv("h\u{e9}llo w\u{f6}rld"), vec![sv("-3")]), "rld"), "OBL C16.substr: negative position counts characters, not bytes");
}
#[kani::proof]
#[kani::unwind(12)]
fn c16_substr_illtyped() {
    kani::cover!(true);
    assert!(is_empty_value(&frag_fn_substring(sv("hello"), vec![sv("x")])), "OBL C16.substr.illtyped: non-numeric position -> empty value, no panic");
    assert!(is_empty_value(&frag_fn_substring(sv("hello"), vec![sv("1"), sv("y")])), "OBL C16.substr.illtyped: non-numeric length");
    assert!(is_empty_value(&frag_fn_substring(sv("hello"), vec![sv("1"), sv("-1")])), "OBL C16.substr.illtyped: negative length");
    assert!(is_empty_value(&frag_fn_substring(sv("hello"), vec![sv("")])), "OBL C16.substr.illtyped: empty position");
}
#[kani::proof]
#[kani::unwind(12)]
fn c16_length() {
    kani::cover!(true);
    assert!(frag_fn_length(sv("hello"), vec![]) == Variant::Int(5), "OBL C16.length: ASCII");
    assert!(frag_fn_length(sv(""), vec![]) == Variant::Int(0), "OBL C16.length: empty");
    assert!(frag_fn_length(sv("h\u{e9}llo"), vec![]) == Variant::Int(5), "OBL C16.length: characters, not bytes");
}
#[kani::proof]
#[kani::unwind(12)]
fn c16_coalesce_concat() {
    kani::cover!(true);
    assert!(is_str(&frag_fn_coalesce(sv(""), vec![sv(""), sv("b"), sv("c")]), "b"), "OBL C16.coalesce: first non-empty");
    assert!(is_str(&frag_fn_coalesce(sv("a"), vec![sv("b")]), "a"), "OBL C16.coalesce: first argument wins");
    assert!(is_empty_value(&frag_fn_coalesce(sv(""), vec![sv("")])), "OBL C16.coalesce: all empty");
    assert!(is_str(&frag_fn_concat(sv("a"), vec![sv("b"), sv("c")]), "abc"), "OBL C16.concat");
    assert!(is_str(&frag_fn_concatws(sv("-"), vec![sv("a"), sv("b"), sv("c")]), "a-b-c"), "OBL C16.concat_ws");
}
#[kani::proof]
#[kani::unwind(12)]
fn c16_replace_trim() {
    kani::cover!(true);
    assert!(is_str(&frag_fn_replace(sv("aXbX"), vec![sv("X"), sv("y")]), "ayby"), "OBL C16.replace: all occurrences");
    assert!(is_str(&frag_fn_replace(sv("abc"), vec![sv("abc"), sv("x")]), "x"), "OBL C16.replace: needle equal to the whole string");
    assert!(is_str(&frag_fn_replace(sv("ab"), vec![sv("abc"), sv("x")]), "ab"), "OBL C16.replace: needle longer than the string");
    assert!(is_str(&frag_fn_replace(sv("aaa"), vec![sv("aa"), sv("b")]), "ba"), "OBL C16.replace: overlapping needle, left to right");
    assert!(is_empty_value(&frag_fn_replace(sv("abc"), vec![sv("a")])), "OBL C16.replace: missing argument -> empty value, no panic");
    assert!(is_empty_value(&frag_fn_replace(sv("abc"), vec![])), "OBL C16.replace: no arguments -> empty value, no panic");
    assert!(is_str(&frag_fn_trim(sv("  a b "), vec![]), "a b"), "OBL C16.trim");
    assert!(is_str(&frag_fn_ltrim(sv("  a "), vec![]), "a "), "OBL C16.ltrim");
    assert!(is_str(&frag_fn_rtrim(sv("  a "), vec![]), "  a"), "OBL C16.rtrim");
}
#[kani::proof]
#[kani::unwind(12)]
fn canary_scalar_must_fail() {
    assert!(is_str(&frag_fn_concat(sv("a"), vec![sv("b")]), "ba"), "CANARY must fail");
}
#[kani::proof]
#[kani::unwind(12)]
fn c16_case() {
    kani::cover!(true);
    assert!(is_str(&frag_fn_lower(sv("HeLLo"), vec![]), "hello"), "OBL C16.case: LOWER");
    assert!(is_str(&frag_fn_upper(sv("HeLLo"), vec![]), "HELLO"), "OBL C16.case: UPPER");
    assert!(is_str(&frag_fn_lower(sv("\u{c9}T\u{c9}"), vec![]), "\u{e9}t\u{e9}"), "OBL C16.case: LOWER on non-ASCII letters");
    assert!(is_str(&frag_fn_upper(sv(""), vec![]), ""), "OBL C16.case: empty");
}
#[kani::proof]
#[kani::unwind(16)]
fn c16_initcap() {
    kani::cover!(true);
    assert!(is_str(&frag_fn_initcap(sv("hello wORLD"), vec![]), "Hello World"), "OBL C16.initcap: first letter of every word upper, the rest lower");
    assert!(is_str(&frag_fn_initcap(sv(""), vec![]), ""), "OBL C16.initcap: empty");
}
#[kani::proof]
#[kani::unwind(12)]
fn c16_abs_least_greatest() {
    kani::cover!(true);
    assert!(is_float(&frag_fn_abs(sv("-5"), vec![]), 5.0), "OBL C16.abs: ABS(-5)");
    assert!(is_float(&frag_fn_abs(sv("2.5"), vec![]), 2.5), "OBL C16.abs: ABS(2.5)");
    assert!(is_empty_value(&frag_fn_abs(sv("x"), vec![])), "OBL C16.abs: ill-typed argument -> empty value, no panic");
    assert!(is_float(&frag_fn_least(sv("3"), vec![sv("1"), sv("2")]), 1.0), "OBL C16.least");
    assert!(is_float(&frag_fn_least(sv("-3"), vec![sv("1")]), -3.0), "OBL C16.least: the first argument counts");
    assert!(is_float(&frag_fn_greatest(sv("3"), vec![sv("7"), sv("x")]), 7.0), "OBL C16.greatest: ill-typed later arguments are skipped");
    assert!(is_empty_value(&frag_fn_greatest(sv("x"), vec![sv("7")])), "OBL C16.greatest: ill-typed first argument -> empty value");
    assert!(is_float(&frag_fn_greatest(sv("-5"), vec![sv("-3")]), -3.0), "OBL C16.greatest: all arguments negative");
    assert!(is_float(&frag_fn_greatest(sv("0"), vec![sv("-1")]), 0.0), "OBL C16.greatest: zero is the greatest of 0 and -1");
    assert!(is_float(&frag_fn_least(sv("5"), vec![sv("7")]), 5.0), "OBL C16.least: all arguments positive");
    assert!(is_float(&frag_fn_greatest(sv("2"), vec![]), 2.0) && is_float(&frag_fn_least(sv("2"), vec![]), 2.0), "OBL C16.least/greatest: a single argument is its own least and greatest");
}
#[kani::proof]
#[kani::unwind(12)]
fn c16_sqrt() {
    kani::cover!(true);
    assert!(is_float(&frag_fn_sqrt(sv("9"), vec![]), 3.0), "OBL C16.sqrt: SQRT(9)");
    assert!(is_float(&frag_fn_sqrt(sv("2.25"), vec![]), 1.5), "OBL C16.sqrt: SQRT(2.25)");
    assert!(is_empty_value(&frag_fn_sqrt(sv("x"), vec![])), "OBL C16.sqrt: ill-typed argument -> empty value");
}
// YEAR / MONTH / DAY / DOW: the parts of the date the argument denotes; DOW counts from Sunday = 1 (documentation); an argument that is no date
// gives an empty value
#[kani::proof]
#[kani::unwind(4)]
fn c16_date_parts() {
    let y: i32 = kani::any(); let m: u32 = kani::any(); let d: u32 = kani::any(); let wd: u32 = kani::any();
    kani::assume(y >= 0 && y <= 9999 && m >= 1 && m <= 12 && d >= 1 && d <= 31 && wd < 7);
    kani::cover!(wd == 6);
    unsafe { PARSED = Some(SDate { y, m, d, wd }); }
    assert!(frag_fn_year(String::new(), vec![]) == Variant::Int(y as i64), "OBL C16.date.parts: YEAR");
    assert!(frag_fn_month(String::new(), vec![]) == Variant::Int(m as i64), "OBL C16.date.parts: MONTH");
    assert!(frag_fn_day(String::new(), vec![]) == Variant::Int(d as i64), "OBL C16.date.parts: DAY");
    assert!(frag_fn_dayofweek(String::new(), vec![]) == Variant::Int(wd as i64 + 1), "OBL C16.date.parts: DOW is 1 for Sunday .. 7 for Saturday");
    unsafe { PARSED = None; }
    assert!(matches!(frag_fn_year(String::new(), vec![]), Variant::Empty(_)), "OBL C16.date.parts: no date -> empty value");
    assert!(matches!(frag_fn_dayofweek(String::new(), vec![]), Variant::Empty(_)), "OBL C16.date.parts: no date -> empty value");
}
