
// ---- verification harness (appended by /verif; compiled only under cfg(kani)) -------------------------------------
#[cfg(kani)]
mod verif_kani_fms {
    use super::*;
    fn any_state() -> FileMetadataState {
        // every combination of the six "already looked up" flags; a cached line count that is present or absent (the other cached values are
        // absent: they cannot be built without the OS) - in particular "looked up, nothing found", the state an unreadable entry leaves behind
        let mut s = FileMetadataState::new();
        s.file_metadata_set = kani::any();
        s.line_count_set = kani::any();
        s.dimensions_set = kani::any();
        s.duration_set = kani::any();
        s.mp3_metadata_set = kani::any();
        s.exif_metadata_set = kani::any();
        if kani::any() { s.line_count = Some(kani::any()); }
        s
    }
    // C17 / C04: what one entry leaves in the per-entry cache never reaches the next entry: after clear() nothing counts as looked up and nothing is cached
    #[kani::proof]
    fn c17_fms_clear() {
        let mut s = any_state();
        kani::cover!(s.line_count_set && s.line_count.is_none(), "looked up, nothing found (an unreadable entry) is among the states");
        s.clear();
        assert!(!s.file_metadata_set && !s.line_count_set && !s.dimensions_set && !s.duration_set && !s.mp3_metadata_set && !s.exif_metadata_set,
                "OBL C17.cache.clear: after clear() no value counts as already looked up, whatever the previous entry left behind");
        assert!(s.file_metadata.is_none() && s.line_count.is_none() && s.dimensions.is_none() && s.duration.is_none() && s.mp3_metadata.is_none() && s.exif_metadata.is_none(),
                "OBL C17.cache.clear: after clear() no value of the previous entry is cached");
    }
    #[kani::proof]
    fn canary_fms_must_fail() {
        let mut s = any_state();
        s.clear();
        assert!(s.line_count_set, "CANARY must fail");
    }
}
