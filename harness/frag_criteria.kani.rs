fn any_ord() -> Ordering {
    let k: u8 = kani::any();
    kani::assume(k < 3);
    match k { 0 => Ordering::Less, 1 => Ordering::Equal, _ => Ordering::Greater }
}
fn vec_of_len(n: usize) -> Vec<u8> { let mut v = Vec::new(); let mut i = 0; while i < n { v.push(0u8); i += 1; } v }
// C05: lexicographic comparison over the key list (the property's bound: key lists of length 1..3)
#[kani::proof]
#[kani::unwind(5)]
fn c05_criteria_lex() {
    let ords = [any_ord(), any_ord(), any_ord()];
    let la: usize = kani::any(); let lb: usize = kani::any();
    kani::assume(la <= 3 && lb <= 3);
    let a = FragLex { values: vec_of_len(la), ords, is_self: true };
    let b = FragLex { values: vec_of_len(lb), ords, is_self: false };
    let got = a.cmp(&b);
    let n = if la < lb { la } else { lb };
    let mut expected = la.cmp(&lb);
    let mut i = n;
    while i > 0 { i -= 1; if ords[i] != Ordering::Equal { expected = ords[i]; } }
    kani::cover!(la == 3 && lb == 3);
    assert!(got == expected, "OBL C05.criteria.lex: first non-equal key decides, else the lengths");
}
#[kani::proof]
#[kani::unwind(3)]
fn c05_criteria_at() {
    let (num, dt, asc): (bool, bool, bool) = (kani::any(), kani::any(), kani::any());
    let (cn, cd, cs) = (any_ord(), any_ord(), any_ord());
    let mk = |is_self: bool| FragCrit { fields: vec![FragField { numeric: num, datetime: dt }], values: vec![0u8], orderings: vec![asc],
                                        is_self, cn, cd, cs };
    let a = mk(true);
    let b = mk(false);
    let got = a.cmp_at(&b, 0);
    let base = if num { cn } else if dt { cd } else { cs };
    kani::cover!(true);
    assert!(got == if asc { base } else { base.reverse() },
            "OBL C05.criteria.at: numeric key -> numeric comparison, else date key -> chronological, else string; desc reverses");
}
// numeric keys compare by numeric value (10 > 9, and 16777217 > 16777216); an expression value that is negative or fractional takes part
// with its real value (-41 < -40 < 2.25 < 2.5 < 25); string keys by the value's own order
fn any_key() -> (KVal, i128) {
    if kani::any() {
        let a: u64 = kani::any();
        kani::assume(a < (1u64 << 53));            // sizes below 8 PiB: the range in which f64 is exact
        (KVal::Size(a), a as i128 * 4)
    } else {
        let q: i32 = kani::any();
        kani::assume(q < 0 || q % 4 != 0);          // not a size
        (KVal::Real(q), q as i128)
    }
}
#[kani::proof]
#[kani::unwind(3)]
fn c05_key_numeric() {
    let (ka, va) = any_key(); let (kb, vb) = any_key();
    let x = FragKey { values: vec![ka] };
    let y = FragKey { values: vec![kb] };
    kani::cover!(matches!((ka, kb), (KVal::Size(a), KVal::Size(b)) if a > (1u64 << 24) && b == a + 1));
    kani::cover!(matches!((ka, kb), (KVal::Real(a), KVal::Real(b)) if a < 0 && b < 0 && a != b));
    kani::cover!(matches!((ka, kb), (KVal::Real(_), KVal::Size(_))));
    assert!(x.cmp_at_numbers(&y, 0) == va.cmp(&vb), "OBL C05.key.numeric: a numeric key compares by numeric value: sizes exactly, negative and fractional expression values as reals");
}
#[kani::proof]
#[kani::unwind(3)]
fn c05_key_direct() {
    let a: u64 = kani::any(); let b: u64 = kani::any();
    let x = FragKey { values: vec![KVal::Size(a)] };
    let y = FragKey { values: vec![KVal::Size(b)] };
    kani::cover!(a != b);
    assert!(x.cmp_at_direct(&y, 0) == KVal::Size(a).cmp(&KVal::Size(b)), "OBL C05.key.direct: any other key compares by the value's own order");
}
#[kani::proof]
#[kani::unwind(3)]
fn canary_criteria_must_fail() {
    let c = any_ord();
    let mk = |is_self: bool| FragCrit { fields: vec![FragField { numeric: true, datetime: false }], values: vec![0u8], orderings: vec![false],
                                        is_self, cn: c, cd: c, cs: c };
    assert!(mk(true).cmp_at(&mk(false), 0) == c, "CANARY must fail");
}
