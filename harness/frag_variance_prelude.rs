// Shim world for the verbatim bodies of get_variance / get_mean / get_buffer_sum (Engine F, C07).
// A buffered row holds at most one cell for the key; a cell is a number or text.
#[derive(Clone, Copy)] pub struct Key;
#[derive(Clone, Copy)] pub enum Cell { Num(u64), Text }
#[derive(Clone, Copy)] pub struct Row(pub Option<Cell>);
impl Row { pub fn get(&self, _k: &Key) -> Option<&Cell> { self.0.as_ref() } }
pub trait CellNum: Sized { fn of(n: u64) -> Self; }
impl CellNum for usize { fn of(n: u64) -> usize { n as usize } }
impl CellNum for f64 { fn of(n: u64) -> f64 { n as f64 } }
impl CellNum for i64 { fn of(n: u64) -> i64 { n as i64 } }
impl Cell {
    // str::parse: a numeral denotes its number in every numeric target type, text is an error
    pub fn parse<T: CellNum>(&self) -> Result<T, ()> { match self { Cell::Num(n) => Ok(T::of(*n)), Cell::Text => Err(()) } }
}
// ASSUMPTION (listed): x.powi(2) == x * x (CBMC does not model the powi intrinsic)
pub fn powi_square(x: f64, n: i32) -> f64 { if n == 2 { x * x } else { kani::assume(false); 0.0 } }
