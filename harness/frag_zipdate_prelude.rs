// Shim world for the WHOLE util::datetime::to_local_datetime (Engine F; C19): a proleptic Gregorian calendar with the semantics chrono documents
// for the constructors and `with_*` setters the function may use (each returns None when the resulting date or time does not exist),
// a scripted clock behind Local::now(), and a stored zip timestamp with the accessor types of zip::DateTime.
pub fn is_leap(y: i32) -> bool { (y % 4 == 0 && y % 100 != 0) || y % 400 == 0 }
pub fn days_in_month(y: i32, m: u32) -> u32 { match m { 1 | 3 | 5 | 7 | 8 | 10 | 12 => 31, 4 | 6 | 9 | 11 => 30, 2 => if is_leap(y) { 29 } else { 28 }, _ => 0 } }
fn date_ok(y: i32, m: u32, d: u32) -> bool { y >= -262143 && y <= 262142 && m >= 1 && m <= 12 && d >= 1 && d <= days_in_month(y, m) }
#[derive(Clone, Copy, PartialEq, Eq, Debug)] pub struct NaiveDate { pub y: i32, pub mo: u32, pub d: u32 }
#[derive(Clone, Copy, PartialEq, Eq, Debug)] pub struct NaiveDateTime { pub y: i32, pub mo: u32, pub d: u32, pub h: u32, pub mi: u32, pub s: u32 }
impl NaiveDate {
    pub fn from_ymd_opt(y: i32, mo: u32, d: u32) -> Option<NaiveDate> { if date_ok(y, mo, d) { Some(NaiveDate { y, mo, d }) } else { None } }
    pub fn and_hms_opt(&self, h: u32, mi: u32, s: u32) -> Option<NaiveDateTime> { if h < 24 && mi < 60 && s < 60 { Some(NaiveDateTime { y: self.y, mo: self.mo, d: self.d, h, mi, s }) } else { None } }
}
impl Default for NaiveDateTime { fn default() -> NaiveDateTime { NaiveDateTime { y: 1970, mo: 1, d: 1, h: 0, mi: 0, s: 0 } } }
impl NaiveDateTime {
    pub fn with_year(&self, y: i32) -> Option<NaiveDateTime> { if date_ok(y, self.mo, self.d) { Some(NaiveDateTime { y, ..*self }) } else { None } }
    pub fn with_month(&self, mo: u32) -> Option<NaiveDateTime> { if date_ok(self.y, mo, self.d) { Some(NaiveDateTime { mo, ..*self }) } else { None } }
    pub fn with_day(&self, d: u32) -> Option<NaiveDateTime> { if date_ok(self.y, self.mo, d) { Some(NaiveDateTime { d, ..*self }) } else { None } }
    pub fn with_hour(&self, h: u32) -> Option<NaiveDateTime> { if h < 24 { Some(NaiveDateTime { h, ..*self }) } else { None } }
    pub fn with_minute(&self, mi: u32) -> Option<NaiveDateTime> { if mi < 60 { Some(NaiveDateTime { mi, ..*self }) } else { None } }
    pub fn with_second(&self, s: u32) -> Option<NaiveDateTime> { if s < 60 { Some(NaiveDateTime { s, ..*self }) } else { None } }
    pub fn date(&self) -> NaiveDate { NaiveDate { y: self.y, mo: self.mo, d: self.d } }
}
pub static mut NOW: NaiveDateTime = NaiveDateTime { y: 1970, mo: 1, d: 1, h: 0, mi: 0, s: 0 };
pub struct Local; pub struct Now;
impl Local { pub fn now() -> Now { Now } }
impl Now { pub fn naive_local(&self) -> NaiveDateTime { unsafe { NOW } } }
pub mod zip {
    pub struct DateTime { pub y: u16, pub mo: u8, pub d: u8, pub h: u8, pub mi: u8, pub s: u8 }
    impl DateTime {
        pub fn year(&self) -> u16 { self.y } pub fn month(&self) -> u8 { self.mo } pub fn day(&self) -> u8 { self.d }
        pub fn hour(&self) -> u8 { self.h } pub fn minute(&self) -> u8 { self.mi } pub fn second(&self) -> u8 { self.s }
    }
}
