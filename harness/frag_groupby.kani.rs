use self::world::{Searcher, Query, Expr, HashMap as Map, Vec as SVec, String as Tok};
fn row(id: u8, key: u8) -> Map<Tok, Tok> {
    let mut m = Map::new();
    m.insert(Tok(9), Tok(id));       // column 9: a row identifier
    m.insert(Tok(5), Tok(key));      // column 5: the grouping key
    m
}
fn world(keys: [u8; 3]) -> Searcher {
    let mut g = SVec::new(); g.push(Expr { id: 5 });
    let mut b = SVec::new(); b.push(row(1, keys[0])); b.push(row(2, keys[1])); b.push(row(3, keys[2]));
    Searcher { query: Query { grouping_fields: g }, raw_output_buffer: b }
}
// (size of the group of `key`, ids of its rows in order; 0 = none)
fn group(p: &Map<SVec<Tok>, SVec<Map<Tok, Tok>>>, key: u8) -> (usize, u8, u8, u8) {
    let mut k = SVec::new(); k.push(Tok(key));
    match p.get(&k) {
        None => (0, 0, 0, 0),
        Some(rows) => {
            let id = |i: usize| match rows.get(i) { Some(r) => r.get(&Tok(9)).unwrap().0, None => 0 };
            (rows.len(), id(0), id(1), id(2))
        }
    }
}
// C08: one group per distinct key value; every buffered row lands in exactly the group of its own key, in buffer order
#[kani::proof]
#[kani::unwind(9)]
fn c08_partition() {
    let k: [u8; 3] = kani::any();
    kani::assume(k[0] >= 1 && k[0] <= 2 && k[1] >= 1 && k[1] <= 2 && k[2] >= 1 && k[2] <= 2);
    kani::cover!(k[0] == k[2] && k[0] != k[1]);
    kani::cover!(k[0] == k[1] && k[1] == k[2]);
    let p = world(k).partition_output_buffer();
    let distinct = if k[0] == k[1] && k[1] == k[2] { 1 } else { 2 };
    assert!(p.len() == distinct, "OBL C08.partition: one group per distinct key value");
    let (n1, a1, b1, c1) = group(&p, 1);
    let (n2, a2, b2, c2) = group(&p, 2);
    assert!(n1 + n2 == 3, "OBL C08.partition: every row is in exactly one group (group sizes add up to the number of rows)");
    // row i (id i+1) is in the group of its own key, and ids inside a group ascend (buffer order, no row twice)
    let in1 = |id: u8| a1 == id || b1 == id || c1 == id;
    let in2 = |id: u8| a2 == id || b2 == id || c2 == id;
    assert!(in1(1) == (k[0] == 1) && in2(1) == (k[0] == 2) && in1(2) == (k[1] == 1) && in2(2) == (k[1] == 2) && in1(3) == (k[2] == 1) && in2(3) == (k[2] == 2),
            "OBL C08.partition: a row is in the group of its own key and in no other");
    assert!((b1 == 0 || a1 < b1) && (c1 == 0 || b1 < c1) && (b2 == 0 || a2 < b2) && (c2 == 0 || b2 < c2), "OBL C08.partition: rows keep their buffer order inside a group");
}
#[kani::proof]
#[kani::unwind(9)]
fn canary_groupby_must_fail() {
    assert!(world([1, 2, 1]).partition_output_buffer().len() == 3, "CANARY must fail");
}
