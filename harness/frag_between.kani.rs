fn eval_between_int(not: bool, x: i64, a: i64, b: i64) -> bool {
    let (lo, lop, hi) = frag_between(not);
    let l = frag_cmp_int(&lo, &FV::int(x), &FV::int(a));
    let r = frag_cmp_int(&hi, &FV::int(x), &FV::int(b));
    match lop { LogicalOp::And => l && r, LogicalOp::Or => l || r }
}
#[kani::proof]
fn c02_between_inclusive() {
    let x: i64 = kani::any(); let a: i64 = kani::any(); let b: i64 = kani::any();
    kani::cover!(true);
    assert!(eval_between_int(false, x, a, b) == (a <= x && x <= b), "OBL C02.between.inclusive");
}
#[kani::proof]
fn c03_notbetween_complement() {
    let x: i64 = kani::any(); let a: i64 = kani::any(); let b: i64 = kani::any();
    kani::cover!(true);
    assert!(eval_between_int(true, x, a, b) == !eval_between_int(false, x, a, b), "OBL C03.notbetween.complement");
}
#[kani::proof]
fn c03_between_ops_are_comparisons() {
    let n: bool = kani::any();
    let (lo, _lop, hi) = frag_between(n);
    kani::cover!(true);
    assert!(is_cmp_op(&lo) && is_cmp_op(&hi), "OBL C03: BETWEEN never leaves Op::Between/NotBetween in the tree");
}

#[kani::proof]
#[kani::unwind(12)]
fn c11_between_case() {
    kani::cover!(true);
    assert!(frag_is_between(String::from("between")), "OBL C11.between.case: between");
    assert!(frag_is_between(String::from("BETWEEN")), "OBL C11.between.case: BETWEEN");
    assert!(frag_is_between(String::from("Between")), "OBL C11.between.case: Between");
    assert!(!frag_is_between(String::from("like")), "OBL C11.between.case: like is not BETWEEN");
    assert!(!frag_is_between(String::from("betwee")), "OBL C11.between.case: prefix is not BETWEEN");
}
