// Appended to the scratch copy of src/util/mod.rs. Engine K: has_extension / is_hidden on bounded symbolic names.
#[cfg(kani)]
pub(crate) mod verif_kani_names {
    use super::*;
    fn lower(b: u8) -> u8 { if b >= b'A' && b <= b'Z' { b + 32 } else { b } }
    #[kani::proof]
    #[kani::unwind(8)]
    fn c04_extclass() {
        // a 4-character ASCII name against the extension list [".a", ".bc"]
        let arr: [u8; 4] = [kani::any(), kani::any(), kani::any(), kani::any()];
        kani::assume(arr[0] >= 32 && arr[0] < 127 && arr[1] >= 32 && arr[1] < 127 && arr[2] >= 32 && arr[2] < 127 && arr[3] >= 32 && arr[3] < 127);
        let name: &str = unsafe { std::str::from_utf8_unchecked(&arr) };
        let exts = vec![String::from(".a"), String::from(".bc")];
        let got = has_extension(name, &exts);
        let l = [lower(arr[0]), lower(arr[1]), lower(arr[2]), lower(arr[3])];
        let expected = (l[2] == b'.' && l[3] == b'a') || (l[1] == b'.' && l[2] == b'b' && l[3] == b'c');
        kani::cover!(expected);
        assert!(got == expected, "OBL C04.extclass: true exactly when the lower-cased name ends with a listed extension");
    }
    #[kani::proof]
    #[kani::unwind(8)]
    fn c04_hidden() {
        let arr: [u8; 2] = [kani::any(), kani::any()];
        kani::assume(arr[0] >= 32 && arr[0] < 127 && arr[1] >= 32 && arr[1] < 127);
        let name: &str = unsafe { std::str::from_utf8_unchecked(&arr) };
        kani::cover!(arr[0] == b'.');
        assert!(is_hidden(name, &None, false) == (arr[0] == b'.'), "OBL C04.hidden: hidden exactly when the name starts with a dot");
    }
    #[kani::proof]
    #[kani::unwind(8)]
    fn canary_names_must_fail() {
        assert!(has_extension("x.zip", &vec![String::from(".tar")]), "CANARY must fail");
    }
}
