use humansize::{Base, FixedAt};
fn opt(m: &str, z: i32) -> (Option<FixedAt>, Base, i32) { frag_size_options(String::from(m), z) }
// docs/usage.md, FORMAT_SIZE specifier table (the unit part after the regex has split off precision and space)
#[kani::proof]
#[kani::unwind(10)]
fn c14_format_flags() {
    kani::cover!(true);
    assert!(opt("", -1) == (None, Base::Binary, 2), "OBL C14.format: default is binary base, automatic unit, 2 decimals");
    assert!(opt("", 0) == (None, Base::Binary, 0), "OBL C14.format: explicit precision is kept");
    assert!(opt("d", 2) == (None, Base::Decimal, 2), "OBL C14.format: d = decimal (1000-based) base");
    assert!(opt("c", 2) == (None, Base::Windows, 2), "OBL C14.format: c = conventional (1024-based divider, 1000-style units)");
    assert!(opt("s", 0) == (None, Base::Binary, 0), "OBL C14.format: s only shortens the unit text");
}
#[kani::proof]
#[kani::unwind(10)]
fn c14_format_units() {
    kani::cover!(true);
    assert!(opt("k", 2) == (Some(FixedAt::Kilo), Base::Binary, 2), "OBL C14.format: k = kibibytes");
    assert!(opt("kib", 2) == (Some(FixedAt::Kilo), Base::Binary, 2), "OBL C14.format: kib = kibibytes");
    assert!(opt("kb", 0) == (Some(FixedAt::Kilo), Base::Decimal, 0), "OBL C14.format: kb = 1000-based kilobytes");
    assert!(opt("ck", 2) == (Some(FixedAt::Kilo), Base::Windows, 2), "OBL C14.format: ck = conventional kilobytes");
    assert!(opt("m", 1) == (Some(FixedAt::Mega), Base::Binary, 1) && opt("mib", 1) == (Some(FixedAt::Mega), Base::Binary, 1), "OBL C14.format: m / mib");
    assert!(opt("mb", 1) == (Some(FixedAt::Mega), Base::Decimal, 1), "OBL C14.format: mb");
}
#[kani::proof]
#[kani::unwind(10)]
fn c14_format_units_large() {
    kani::cover!(true);
    assert!(opt("g", 1) == (Some(FixedAt::Giga), Base::Binary, 1) && opt("gib", 1) == (Some(FixedAt::Giga), Base::Binary, 1), "OBL C14.format: g / gib");
    assert!(opt("gb", 1) == (Some(FixedAt::Giga), Base::Decimal, 1), "OBL C14.format: gb");
    assert!(opt("t", 1) == (Some(FixedAt::Tera), Base::Binary, 1) && opt("tib", 1) == (Some(FixedAt::Tera), Base::Binary, 1), "OBL C14.format: t / tib");
    assert!(opt("tb", 1) == (Some(FixedAt::Tera), Base::Decimal, 1), "OBL C14.format: tb");
    assert!(opt("b", 1) == (Some(FixedAt::Base), Base::Binary, 1), "OBL C14.format: b = bytes");
    assert!(opt("ds", 2) == (None, Base::Decimal, 2), "OBL C14.format: flags combine");
}
// the base flags are applied after the unit table: `c` / `d` decide the base whatever the spelling of the fixed unit
// (documentation: `%.0 ck` -> 1639 KB is 1024-based; so is every other fixed unit combined with `c`)
#[kani::proof]
#[kani::unwind(10)]
fn c14_format_precedence() {
    kani::cover!(true);
    assert!(opt("ckb", 0) == (Some(FixedAt::Kilo), Base::Windows, 0), "OBL C14.format.precedence: c with kb keeps the conventional (1024-based) base");
    assert!(opt("cmb", 2) == (Some(FixedAt::Mega), Base::Windows, 2), "OBL C14.format.precedence: c with mb");
    assert!(opt("cgb", 2) == (Some(FixedAt::Giga), Base::Windows, 2) && opt("ctb", 2) == (Some(FixedAt::Tera), Base::Windows, 2), "OBL C14.format.precedence: c with gb / tb");
    assert!(opt("cm", 2) == (Some(FixedAt::Mega), Base::Windows, 2) && opt("cg", 2) == (Some(FixedAt::Giga), Base::Windows, 2), "OBL C14.format.precedence: c with m / g");
    assert!(opt("dk", 2) == (Some(FixedAt::Kilo), Base::Decimal, 2) && opt("dm", 2) == (Some(FixedAt::Mega), Base::Decimal, 2), "OBL C14.format.precedence: d with k / m is 1000-based");
    assert!(opt("cskb", 0) == (Some(FixedAt::Kilo), Base::Windows, 0), "OBL C14.format.precedence: c and s with kb");
}
#[kani::proof]
#[kani::unwind(10)]
fn canary_sizefmt_must_fail() { assert!(opt("kb", 0).1 == Base::Binary, "CANARY must fail"); }

// the unit text: the kilo unit is spelled KB (documentation: `'%.0 kb'` -> 1678 KB), and `s` shortens every unit to its first letter
fn text(rendered: &'static str, short: bool) -> String { unsafe { humansize::RENDERED = rendered; } frag_size_text(0, humansize::Opts, short) }
#[kani::proof]
#[kani::unwind(12)]
fn c14_format_unit_text() {
    kani::cover!(true);
    assert!(text("1678 kB", false) == "1678 KB", "OBL C14.format.text: the 1000-based kilo unit is written KB");
    assert!(text("1.60 MiB", false) == "1.60 MiB", "OBL C14.format.text: binary units are left as rendered");
    assert!(text("2 MiB", true) == "2 M", "OBL C14.format.text: s shortens MiB to M");
    assert!(text("1.50 kB", true) == "1.50 K", "OBL C14.format.text: s shortens the decimal / conventional kilo unit to K");
    assert!(text("1.46 KiB", true) == "1.46 K", "OBL C14.format.text: s shortens KiB to K");
    assert!(text("1.68 MB", true) == "1.68 M" && text("3 GB", true) == "3 G" && text("3 GiB", true) == "3 G", "OBL C14.format.text: s shortens MB / GB / GiB");
}
