use humansize::{Base, FixedAt};
fn opt(m: &str, z: i32) -> (Option<FixedAt>, Base, i32) { frag_size_options(String::from(m), z) }
// docs/usage.md, FORMAT_SIZE specifier table (the unit part after the regex has split off precision and space)
#[kani::proof]
#[kani::unwind(10)]
fn c14_format_flags() {
    kani::cover!(true);
    assert!(opt("", -1) == (None, Base::Binary, 2), "OBL C14.format: default is binary base, automatic unit, 2 decimals");
    assert!(opt("", 0) == (None, Base::Binary, 0), "OBL C14.format: explicit precision is kept");
    assert!(opt("d", 2) == (None, Base::Decimal, 2), "OBL C14.format: d = decimal (1000-based) base");
    assert!(opt("c", 2) == (None, Base::Windows, 2), "OBL C14.format: c = conventional (1024-based divider, 1000-style units)");
    assert!(opt("s", 0) == (None, Base::Binary, 0), "OBL C14.format: s only shortens the unit text");
}
#[kani::proof]
#[kani::unwind(10)]
fn c14_format_units() {
    kani::cover!(true);
    assert!(opt("k", 2) == (Some(FixedAt::Kilo), Base::Binary, 2), "OBL C14.format: k = kibibytes");
    assert!(opt("kib", 2) == (Some(FixedAt::Kilo), Base::Binary, 2), "OBL C14.format: kib = kibibytes");
    assert!(opt("kb", 0) == (Some(FixedAt::Kilo), Base::Decimal, 0), "OBL C14.format: kb = 1000-based kilobytes");
    assert!(opt("ck", 2) == (Some(FixedAt::Kilo), Base::Windows, 2), "OBL C14.format: ck = conventional kilobytes");
    assert!(opt("m", 1) == (Some(FixedAt::Mega), Base::Binary, 1) && opt("mib", 1) == (Some(FixedAt::Mega), Base::Binary, 1), "OBL C14.format: m / mib");
    assert!(opt("mb", 1) == (Some(FixedAt::Mega), Base::Decimal, 1), "OBL C14.format: mb");
}
#[kani::proof]
#[kani::unwind(10)]
fn c14_format_units_large() {
    kani::cover!(true);
    assert!(opt("g", 1) == (Some(FixedAt::Giga), Base::Binary, 1) && opt("gib", 1) == (Some(FixedAt::Giga), Base::Binary, 1), "OBL C14.format: g / gib");
    assert!(opt("gb", 1) == (Some(FixedAt::Giga), Base::Decimal, 1), "OBL C14.format: gb");
    assert!(opt("t", 1) == (Some(FixedAt::Tera), Base::Binary, 1) && opt("tib", 1) == (Some(FixedAt::Tera), Base::Binary, 1), "OBL C14.format: t / tib");
    assert!(opt("tb", 1) == (Some(FixedAt::Tera), Base::Decimal, 1), "OBL C14.format: tb");
    assert!(opt("b", 1) == (Some(FixedAt::Base), Base::Binary, 1), "OBL C14.format: b = bytes");
    assert!(opt("ds", 2) == (None, Base::Decimal, 2), "OBL C14.format: flags combine");
}
// the base flags are applied after the unit table: `c` / `d` decide the base whatever the spelling of the fixed unit
// (documentation: `%.0 ck` -> 1639 KB is 1024-based; so is every other fixed unit combined with `c`)
#[kani::proof]
#[kani::unwind(10)]
fn c14_format_precedence() {
    kani::cover!(true);
    assert!(opt("ckb", 0) == (Some(FixedAt::Kilo), Base::Windows, 0), "OBL C14.format.precedence: c with kb keeps the conventional (1024-based) base");
    assert!(opt("cmb", 2) == (Some(FixedAt::Mega), Base::Windows, 2), "OBL C14.format.precedence: c with mb");
    assert!(opt("cgb", 2) == (Some(FixedAt::Giga), Base::Windows, 2) && opt("ctb", 2) == (Some(FixedAt::Tera), Base::Windows, 2), "OBL C14.format.precedence: c with gb / tb");
    assert!(opt("cm", 2) == (Some(FixedAt::Mega), Base::Windows, 2) && opt("cg", 2) == (Some(FixedAt::Giga), Base::Windows, 2), "OBL C14.format.precedence: c with m / g");
    assert!(opt("dk", 2) == (Some(FixedAt::Kilo), Base::Decimal, 2) && opt("dm", 2) == (Some(FixedAt::Mega), Base::Decimal, 2), "OBL C14.format.precedence: d with k / m is 1000-based");
    assert!(opt("cskb", 0) == (Some(FixedAt::Kilo), Base::Windows, 0), "OBL C14.format.precedence: c and s with kb");
}
#[kani::proof]
#[kani::unwind(10)]
fn canary_sizefmt_must_fail() { assert!(opt("kb", 0).1 == Base::Binary, "CANARY must fail"); }

// the unit text: the kilo unit is spelled KB (documentation: `'%.0 kb'` -> 1678 KB), and `s` shortens every unit to its first letter
fn text(rendered: &'static str, short: bool) -> String { unsafe { humansize::RENDERED = rendered; } frag_size_text(0, humansize::Opts, short) }
#[kani::proof]
#[kani::unwind(12)]
fn c14_format_unit_text() {
    kani::cover!(true);
    assert!(text("1678 kB", false) == "1678 KB", "OBL C14.format.text: the 1000-based kilo unit is written KB");
    assert!(text("1.60 MiB", false) == "1.60 MiB", "OBL C14.format.text: binary units are left as rendered");
    assert!(text("2 MiB", true) == "2 M", "OBL C14.format.text: s shortens MiB to M");
    assert!(text("1.50 kB", true) == "1.50 K", "OBL C14.format.text: s shortens the decimal / conventional kilo unit to K");
    assert!(text("1.46 KiB", true) == "1.46 K", "OBL C14.format.text: s shortens KiB to K");
    assert!(text("1.68 MB", true) == "1.68 M" && text("3 GB", true) == "3 G" && text("3 GiB", true) == "3 G", "OBL C14.format.text: s shortens MB / GB / GiB");
}
#[kani::proof]
#[kani::unwind(12)]
fn c14_format_unit_text_large() {
    kani::cover!(true);
    assert!(text("3 TB", true) == "3 T" && text("2.50 TiB", true) == "2.50 T", "OBL C14.format.text.large: s shortens TB / TiB");
    assert!(text("1 PB", true) == "1 P" && text("1 PiB", true) == "1 P", "OBL C14.format.text.large: s shortens PB / PiB");
    assert!(text("1 EB", true) == "1 E" && text("1 EiB", true) == "1 E", "OBL C14.format.text.large: s shortens EB / EiB");
    assert!(text("3 TB", false) == "3 TB" && text("2.50 TiB", false) == "2.50 TiB" && text("1.68 MB", false) == "1.68 MB", "OBL C14.format.text.large: without s the unit text is kept");
    assert!(text("1678kB", false) == "1678KB" && text("1678kB", true) == "1678K", "OBL C14.format.text.large: no space between value and unit");
}
// GRID-BEGIN (generated by tools/gen_sizefmt_grid.py)
#[kani::proof]
#[kani::unwind(10)]
fn c14_format_grid_none() {
    kani::cover!(true);
    assert!(opt("", 0) == (None, Base::Binary, 0), "OBL C14.format.grid.none: `` selects (None, Binary, precision kept)");
    assert!(opt("c", 1) == (None, Base::Windows, 1), "OBL C14.format.grid.none: `c` selects (None, Windows, precision kept)");
    assert!(opt("d", 2) == (None, Base::Decimal, 2), "OBL C14.format.grid.none: `d` selects (None, Decimal, precision kept)");
    assert!(opt("s", 0) == (None, Base::Binary, 0), "OBL C14.format.grid.none: `s` selects (None, Binary, precision kept)");
    assert!(opt("cs", 1) == (None, Base::Windows, 1), "OBL C14.format.grid.none: `cs` selects (None, Windows, precision kept)");
    assert!(opt("ds", 2) == (None, Base::Decimal, 2), "OBL C14.format.grid.none: `ds` selects (None, Decimal, precision kept)");
}
#[kani::proof]
#[kani::unwind(10)]
fn c14_format_grid_b() {
    kani::cover!(true);
    assert!(opt("b", 0) == (Some(FixedAt::Base), Base::Binary, 0), "OBL C14.format.grid.b: `b` selects (Some(FixedAt::Base), Binary, precision kept)");
    assert!(opt("cb", 1) == (Some(FixedAt::Base), Base::Windows, 1), "OBL C14.format.grid.b: `cb` selects (Some(FixedAt::Base), Windows, precision kept)");
    assert!(opt("db", 2) == (Some(FixedAt::Base), Base::Decimal, 2), "OBL C14.format.grid.b: `db` selects (Some(FixedAt::Base), Decimal, precision kept)");
    assert!(opt("sb", 0) == (Some(FixedAt::Base), Base::Binary, 0), "OBL C14.format.grid.b: `sb` selects (Some(FixedAt::Base), Binary, precision kept)");
    assert!(opt("csb", 1) == (Some(FixedAt::Base), Base::Windows, 1), "OBL C14.format.grid.b: `csb` selects (Some(FixedAt::Base), Windows, precision kept)");
    assert!(opt("dsb", 2) == (Some(FixedAt::Base), Base::Decimal, 2), "OBL C14.format.grid.b: `dsb` selects (Some(FixedAt::Base), Decimal, precision kept)");
}
#[kani::proof]
#[kani::unwind(10)]
fn c14_format_grid_k() {
    kani::cover!(true);
    assert!(opt("k", 0) == (Some(FixedAt::Kilo), Base::Binary, 0), "OBL C14.format.grid.k: `k` selects (Some(FixedAt::Kilo), Binary, precision kept)");
    assert!(opt("ck", 1) == (Some(FixedAt::Kilo), Base::Windows, 1), "OBL C14.format.grid.k: `ck` selects (Some(FixedAt::Kilo), Windows, precision kept)");
    assert!(opt("dk", 2) == (Some(FixedAt::Kilo), Base::Decimal, 2), "OBL C14.format.grid.k: `dk` selects (Some(FixedAt::Kilo), Decimal, precision kept)");
    assert!(opt("sk", 0) == (Some(FixedAt::Kilo), Base::Binary, 0), "OBL C14.format.grid.k: `sk` selects (Some(FixedAt::Kilo), Binary, precision kept)");
    assert!(opt("csk", 1) == (Some(FixedAt::Kilo), Base::Windows, 1), "OBL C14.format.grid.k: `csk` selects (Some(FixedAt::Kilo), Windows, precision kept)");
    assert!(opt("dsk", 2) == (Some(FixedAt::Kilo), Base::Decimal, 2), "OBL C14.format.grid.k: `dsk` selects (Some(FixedAt::Kilo), Decimal, precision kept)");
}
#[kani::proof]
#[kani::unwind(10)]
fn c14_format_grid_kib() {
    kani::cover!(true);
    assert!(opt("kib", 0) == (Some(FixedAt::Kilo), Base::Binary, 0), "OBL C14.format.grid.kib: `kib` selects (Some(FixedAt::Kilo), Binary, precision kept)");
    assert!(opt("ckib", 1) == (Some(FixedAt::Kilo), Base::Windows, 1), "OBL C14.format.grid.kib: `ckib` selects (Some(FixedAt::Kilo), Windows, precision kept)");
    assert!(opt("dkib", 2) == (Some(FixedAt::Kilo), Base::Decimal, 2), "OBL C14.format.grid.kib: `dkib` selects (Some(FixedAt::Kilo), Decimal, precision kept)");
    assert!(opt("skib", 0) == (Some(FixedAt::Kilo), Base::Binary, 0), "OBL C14.format.grid.kib: `skib` selects (Some(FixedAt::Kilo), Binary, precision kept)");
    assert!(opt("cskib", 1) == (Some(FixedAt::Kilo), Base::Windows, 1), "OBL C14.format.grid.kib: `cskib` selects (Some(FixedAt::Kilo), Windows, precision kept)");
    assert!(opt("dskib", 2) == (Some(FixedAt::Kilo), Base::Decimal, 2), "OBL C14.format.grid.kib: `dskib` selects (Some(FixedAt::Kilo), Decimal, precision kept)");
}
#[kani::proof]
#[kani::unwind(10)]
fn c14_format_grid_kb() {
    kani::cover!(true);
    assert!(opt("kb", 0) == (Some(FixedAt::Kilo), Base::Decimal, 0), "OBL C14.format.grid.kb: `kb` selects (Some(FixedAt::Kilo), Decimal, precision kept)");
    assert!(opt("ckb", 1) == (Some(FixedAt::Kilo), Base::Windows, 1), "OBL C14.format.grid.kb: `ckb` selects (Some(FixedAt::Kilo), Windows, precision kept)");
    assert!(opt("dkb", 2) == (Some(FixedAt::Kilo), Base::Decimal, 2), "OBL C14.format.grid.kb: `dkb` selects (Some(FixedAt::Kilo), Decimal, precision kept)");
    assert!(opt("skb", 0) == (Some(FixedAt::Kilo), Base::Decimal, 0), "OBL C14.format.grid.kb: `skb` selects (Some(FixedAt::Kilo), Decimal, precision kept)");
    assert!(opt("cskb", 1) == (Some(FixedAt::Kilo), Base::Windows, 1), "OBL C14.format.grid.kb: `cskb` selects (Some(FixedAt::Kilo), Windows, precision kept)");
    assert!(opt("dskb", 2) == (Some(FixedAt::Kilo), Base::Decimal, 2), "OBL C14.format.grid.kb: `dskb` selects (Some(FixedAt::Kilo), Decimal, precision kept)");
}
#[kani::proof]
#[kani::unwind(10)]
fn c14_format_grid_m() {
    kani::cover!(true);
    assert!(opt("m", 0) == (Some(FixedAt::Mega), Base::Binary, 0), "OBL C14.format.grid.m: `m` selects (Some(FixedAt::Mega), Binary, precision kept)");
    assert!(opt("cm", 1) == (Some(FixedAt::Mega), Base::Windows, 1), "OBL C14.format.grid.m: `cm` selects (Some(FixedAt::Mega), Windows, precision kept)");
    assert!(opt("dm", 2) == (Some(FixedAt::Mega), Base::Decimal, 2), "OBL C14.format.grid.m: `dm` selects (Some(FixedAt::Mega), Decimal, precision kept)");
    assert!(opt("sm", 0) == (Some(FixedAt::Mega), Base::Binary, 0), "OBL C14.format.grid.m: `sm` selects (Some(FixedAt::Mega), Binary, precision kept)");
    assert!(opt("csm", 1) == (Some(FixedAt::Mega), Base::Windows, 1), "OBL C14.format.grid.m: `csm` selects (Some(FixedAt::Mega), Windows, precision kept)");
    assert!(opt("dsm", 2) == (Some(FixedAt::Mega), Base::Decimal, 2), "OBL C14.format.grid.m: `dsm` selects (Some(FixedAt::Mega), Decimal, precision kept)");
}
#[kani::proof]
#[kani::unwind(10)]
fn c14_format_grid_mib() {
    kani::cover!(true);
    assert!(opt("mib", 0) == (Some(FixedAt::Mega), Base::Binary, 0), "OBL C14.format.grid.mib: `mib` selects (Some(FixedAt::Mega), Binary, precision kept)");
    assert!(opt("cmib", 1) == (Some(FixedAt::Mega), Base::Windows, 1), "OBL C14.format.grid.mib: `cmib` selects (Some(FixedAt::Mega), Windows, precision kept)");
    assert!(opt("dmib", 2) == (Some(FixedAt::Mega), Base::Decimal, 2), "OBL C14.format.grid.mib: `dmib` selects (Some(FixedAt::Mega), Decimal, precision kept)");
    assert!(opt("smib", 0) == (Some(FixedAt::Mega), Base::Binary, 0), "OBL C14.format.grid.mib: `smib` selects (Some(FixedAt::Mega), Binary, precision kept)");
    assert!(opt("csmib", 1) == (Some(FixedAt::Mega), Base::Windows, 1), "OBL C14.format.grid.mib: `csmib` selects (Some(FixedAt::Mega), Windows, precision kept)");
    assert!(opt("dsmib", 2) == (Some(FixedAt::Mega), Base::Decimal, 2), "OBL C14.format.grid.mib: `dsmib` selects (Some(FixedAt::Mega), Decimal, precision kept)");
}
#[kani::proof]
#[kani::unwind(10)]
fn c14_format_grid_mb() {
    kani::cover!(true);
    assert!(opt("mb", 0) == (Some(FixedAt::Mega), Base::Decimal, 0), "OBL C14.format.grid.mb: `mb` selects (Some(FixedAt::Mega), Decimal, precision kept)");
    assert!(opt("cmb", 1) == (Some(FixedAt::Mega), Base::Windows, 1), "OBL C14.format.grid.mb: `cmb` selects (Some(FixedAt::Mega), Windows, precision kept)");
    assert!(opt("dmb", 2) == (Some(FixedAt::Mega), Base::Decimal, 2), "OBL C14.format.grid.mb: `dmb` selects (Some(FixedAt::Mega), Decimal, precision kept)");
    assert!(opt("smb", 0) == (Some(FixedAt::Mega), Base::Decimal, 0), "OBL C14.format.grid.mb: `smb` selects (Some(FixedAt::Mega), Decimal, precision kept)");
    assert!(opt("csmb", 1) == (Some(FixedAt::Mega), Base::Windows, 1), "OBL C14.format.grid.mb: `csmb` selects (Some(FixedAt::Mega), Windows, precision kept)");
    assert!(opt("dsmb", 2) == (Some(FixedAt::Mega), Base::Decimal, 2), "OBL C14.format.grid.mb: `dsmb` selects (Some(FixedAt::Mega), Decimal, precision kept)");
}
#[kani::proof]
#[kani::unwind(10)]
fn c14_format_grid_g() {
    kani::cover!(true);
    assert!(opt("g", 0) == (Some(FixedAt::Giga), Base::Binary, 0), "OBL C14.format.grid.g: `g` selects (Some(FixedAt::Giga), Binary, precision kept)");
    assert!(opt("cg", 1) == (Some(FixedAt::Giga), Base::Windows, 1), "OBL C14.format.grid.g: `cg` selects (Some(FixedAt::Giga), Windows, precision kept)");
    assert!(opt("dg", 2) == (Some(FixedAt::Giga), Base::Decimal, 2), "OBL C14.format.grid.g: `dg` selects (Some(FixedAt::Giga), Decimal, precision kept)");
    assert!(opt("sg", 0) == (Some(FixedAt::Giga), Base::Binary, 0), "OBL C14.format.grid.g: `sg` selects (Some(FixedAt::Giga), Binary, precision kept)");
    assert!(opt("csg", 1) == (Some(FixedAt::Giga), Base::Windows, 1), "OBL C14.format.grid.g: `csg` selects (Some(FixedAt::Giga), Windows, precision kept)");
    assert!(opt("dsg", 2) == (Some(FixedAt::Giga), Base::Decimal, 2), "OBL C14.format.grid.g: `dsg` selects (Some(FixedAt::Giga), Decimal, precision kept)");
}
#[kani::proof]
#[kani::unwind(10)]
fn c14_format_grid_gib() {
    kani::cover!(true);
    assert!(opt("gib", 0) == (Some(FixedAt::Giga), Base::Binary, 0), "OBL C14.format.grid.gib: `gib` selects (Some(FixedAt::Giga), Binary, precision kept)");
    assert!(opt("cgib", 1) == (Some(FixedAt::Giga), Base::Windows, 1), "OBL C14.format.grid.gib: `cgib` selects (Some(FixedAt::Giga), Windows, precision kept)");
    assert!(opt("dgib", 2) == (Some(FixedAt::Giga), Base::Decimal, 2), "OBL C14.format.grid.gib: `dgib` selects (Some(FixedAt::Giga), Decimal, precision kept)");
    assert!(opt("sgib", 0) == (Some(FixedAt::Giga), Base::Binary, 0), "OBL C14.format.grid.gib: `sgib` selects (Some(FixedAt::Giga), Binary, precision kept)");
    assert!(opt("csgib", 1) == (Some(FixedAt::Giga), Base::Windows, 1), "OBL C14.format.grid.gib: `csgib` selects (Some(FixedAt::Giga), Windows, precision kept)");
    assert!(opt("dsgib", 2) == (Some(FixedAt::Giga), Base::Decimal, 2), "OBL C14.format.grid.gib: `dsgib` selects (Some(FixedAt::Giga), Decimal, precision kept)");
}
#[kani::proof]
#[kani::unwind(10)]
fn c14_format_grid_gb() {
    kani::cover!(true);
    assert!(opt("gb", 0) == (Some(FixedAt::Giga), Base::Decimal, 0), "OBL C14.format.grid.gb: `gb` selects (Some(FixedAt::Giga), Decimal, precision kept)");
    assert!(opt("cgb", 1) == (Some(FixedAt::Giga), Base::Windows, 1), "OBL C14.format.grid.gb: `cgb` selects (Some(FixedAt::Giga), Windows, precision kept)");
    assert!(opt("dgb", 2) == (Some(FixedAt::Giga), Base::Decimal, 2), "OBL C14.format.grid.gb: `dgb` selects (Some(FixedAt::Giga), Decimal, precision kept)");
    assert!(opt("sgb", 0) == (Some(FixedAt::Giga), Base::Decimal, 0), "OBL C14.format.grid.gb: `sgb` selects (Some(FixedAt::Giga), Decimal, precision kept)");
    assert!(opt("csgb", 1) == (Some(FixedAt::Giga), Base::Windows, 1), "OBL C14.format.grid.gb: `csgb` selects (Some(FixedAt::Giga), Windows, precision kept)");
    assert!(opt("dsgb", 2) == (Some(FixedAt::Giga), Base::Decimal, 2), "OBL C14.format.grid.gb: `dsgb` selects (Some(FixedAt::Giga), Decimal, precision kept)");
}
#[kani::proof]
#[kani::unwind(10)]
fn c14_format_grid_t() {
    kani::cover!(true);
    assert!(opt("t", 0) == (Some(FixedAt::Tera), Base::Binary, 0), "OBL C14.format.grid.t: `t` selects (Some(FixedAt::Tera), Binary, precision kept)");
    assert!(opt("ct", 1) == (Some(FixedAt::Tera), Base::Windows, 1), "OBL C14.format.grid.t: `ct` selects (Some(FixedAt::Tera), Windows, precision kept)");
    assert!(opt("dt", 2) == (Some(FixedAt::Tera), Base::Decimal, 2), "OBL C14.format.grid.t: `dt` selects (Some(FixedAt::Tera), Decimal, precision kept)");
    assert!(opt("st", 0) == (Some(FixedAt::Tera), Base::Binary, 0), "OBL C14.format.grid.t: `st` selects (Some(FixedAt::Tera), Binary, precision kept)");
    assert!(opt("cst", 1) == (Some(FixedAt::Tera), Base::Windows, 1), "OBL C14.format.grid.t: `cst` selects (Some(FixedAt::Tera), Windows, precision kept)");
    assert!(opt("dst", 2) == (Some(FixedAt::Tera), Base::Decimal, 2), "OBL C14.format.grid.t: `dst` selects (Some(FixedAt::Tera), Decimal, precision kept)");
}
#[kani::proof]
#[kani::unwind(10)]
fn c14_format_grid_tib() {
    kani::cover!(true);
    assert!(opt("tib", 0) == (Some(FixedAt::Tera), Base::Binary, 0), "OBL C14.format.grid.tib: `tib` selects (Some(FixedAt::Tera), Binary, precision kept)");
    assert!(opt("ctib", 1) == (Some(FixedAt::Tera), Base::Windows, 1), "OBL C14.format.grid.tib: `ctib` selects (Some(FixedAt::Tera), Windows, precision kept)");
    assert!(opt("dtib", 2) == (Some(FixedAt::Tera), Base::Decimal, 2), "OBL C14.format.grid.tib: `dtib` selects (Some(FixedAt::Tera), Decimal, precision kept)");
    assert!(opt("stib", 0) == (Some(FixedAt::Tera), Base::Binary, 0), "OBL C14.format.grid.tib: `stib` selects (Some(FixedAt::Tera), Binary, precision kept)");
    assert!(opt("cstib", 1) == (Some(FixedAt::Tera), Base::Windows, 1), "OBL C14.format.grid.tib: `cstib` selects (Some(FixedAt::Tera), Windows, precision kept)");
    assert!(opt("dstib", 2) == (Some(FixedAt::Tera), Base::Decimal, 2), "OBL C14.format.grid.tib: `dstib` selects (Some(FixedAt::Tera), Decimal, precision kept)");
}
#[kani::proof]
#[kani::unwind(10)]
fn c14_format_grid_tb() {
    kani::cover!(true);
    assert!(opt("tb", 0) == (Some(FixedAt::Tera), Base::Decimal, 0), "OBL C14.format.grid.tb: `tb` selects (Some(FixedAt::Tera), Decimal, precision kept)");
    assert!(opt("ctb", 1) == (Some(FixedAt::Tera), Base::Windows, 1), "OBL C14.format.grid.tb: `ctb` selects (Some(FixedAt::Tera), Windows, precision kept)");
    assert!(opt("dtb", 2) == (Some(FixedAt::Tera), Base::Decimal, 2), "OBL C14.format.grid.tb: `dtb` selects (Some(FixedAt::Tera), Decimal, precision kept)");
    assert!(opt("stb", 0) == (Some(FixedAt::Tera), Base::Decimal, 0), "OBL C14.format.grid.tb: `stb` selects (Some(FixedAt::Tera), Decimal, precision kept)");
    assert!(opt("cstb", 1) == (Some(FixedAt::Tera), Base::Windows, 1), "OBL C14.format.grid.tb: `cstb` selects (Some(FixedAt::Tera), Windows, precision kept)");
    assert!(opt("dstb", 2) == (Some(FixedAt::Tera), Base::Decimal, 2), "OBL C14.format.grid.tb: `dstb` selects (Some(FixedAt::Tera), Decimal, precision kept)");
}
// GRID-END
