fn row(vals: &[(&str, &str)]) -> Vec<(String, String)> { let mut v = Vec::new(); for (a, b) in vals { v.push((String::from(*a), String::from(*b))); } v }
fn check(vals: &[(&str, &str)]) {
    let n = vals.len();
    let mut w = ResultsWriter { log: Vec::new(), names_ok: true, expect: row(vals) };
    let mut sink = Sink;
    let r = w.write_row(&mut sink, row(vals));
    assert!(r.is_ok(), "OBL C09.row.protocol: write_row succeeds");
    assert!(w.log.len() == n + 2 && w.log[0].0 == 1 && w.log[n + 1].0 == 3, "OBL C09.row.protocol: row start, n items, row end");
    assert!(w.names_ok, "OBL C09.row.protocol: every (name, value) pair is passed once, in order");
    let mut i = 0;
    while i < n {
        assert!(w.log[i + 1].0 == 2 && w.log[i + 1].2 == (i == n - 1), "OBL C09.row.protocol: is_last is set exactly on the last column (also when column names repeat)");
        i += 1;
    }
}
#[kani::proof]
#[kani::unwind(10)]
fn c09_row_protocol() {
    kani::cover!(true);
    check(&[("name", "a"), ("size", "1"), ("name", "a")]);
}
#[kani::proof]
#[kani::unwind(10)]
fn c09_row_protocol_small() {
    kani::cover!(true);
    check(&[("name", "a")]);
    check(&[("x", "1"), ("x", "1")]);
    check(&[]);
}
