// ---- oracles, written from the property statements (C02, C13), not from the code -------------------
pub fn spec_rel_i64(op: &Op, f: i64, v: i64) -> Option<bool> {
    match op {
        Op::Eq | Op::Eeq => Some(f == v), Op::Ne | Op::Ene => Some(f != v),
        Op::Gt => Some(f > v), Op::Gte => Some(f >= v), Op::Lt => Some(f < v), Op::Lte => Some(f <= v),
        _ => None,
    }
}
pub fn spec_rel_f64(op: &Op, f: f64, v: f64) -> Option<bool> {
    match op {
        Op::Eq | Op::Eeq => Some(f == v), Op::Ne | Op::Ene => Some(f != v),
        Op::Gt => Some(f > v), Op::Gte => Some(f >= v), Op::Lt => Some(f < v), Op::Lte => Some(f <= v),
        _ => None,
    }
}
/// C13: literal denotes the closed interval [a, b]; t is the entry time.
pub fn spec_rel_date(op: &Op, t: i64, a: i64, b: i64) -> Option<bool> {
    match op {
        Op::Eq => Some(a <= t && t <= b), Op::Ne => Some(!(a <= t && t <= b)),
        Op::Lt => Some(t < a), Op::Gt => Some(t > b), Op::Lte => Some(t <= b), Op::Gte => Some(t >= a),
        _ => None,
    }
}

#[kani::proof]
fn c02_cmp_int() {
    let op = any_cmp_op(); let f: i64 = kani::any(); let v: i64 = kani::any();
    kani::cover!(true);
    assert!(Some(frag_cmp_int(&op, &FV::int(f), &FV::int(v))) == spec_rel_i64(&op, f, v), "OBL C02.cmp.int");
}
// an integer column against a literal / expression value with a fractional part: compared as real numbers, not truncated
#[kani::proof]
fn c02_cmp_int_fractional() {
    let op = any_cmp_op(); let f: i32 = kani::any(); let k: i32 = kani::any();
    let v = (k as f64) + 0.5;
    kani::cover!(f == k);
    assert!(Some(frag_cmp_int(&op, &FV::int(f as i64), &FV::float(v))) == spec_rel_f64(&op, f as f64, v), "OBL C02.cmp.int.fractional");
}
#[kani::proof]
fn c02_cmp_float() {
    let op = any_cmp_op(); let f: f64 = kani::any(); let v: f64 = kani::any();
    kani::assume(!f.is_nan() && !v.is_nan());
    kani::cover!(true);
    assert!(Some(frag_cmp_float(&op, &FV::float(f), &FV::float(v))) == spec_rel_f64(&op, f, v), "OBL C02.cmp.float");
}
#[kani::proof]
fn c02_cmp_bool() {
    // The property compares boolean columns with = / != (=== / !==) only. Ordering operators on two symbolic
    // bools are NOT checked: CBMC 6.11 mis-evaluates `a <= b` on symbolic bool operands (measured: the
    // tautology (a <= b) == ((a as i64) <= (b as i64)) is reported FAILED), so they are left out.
    let op = any_eq_op(); let f: bool = kani::any(); let v: bool = kani::any();
    kani::cover!(true);
    assert!(Some(frag_cmp_bool(&op, &FV::boolean(f), &FV::boolean(v))) == spec_rel_i64(&op, f as i64, v as i64), "OBL C02.cmp.bool");
}
#[kani::proof]
fn c13_cmp_datetime() {
    let k: u8 = kani::any(); kani::assume(k < 6);
    let op = match k { 0 => Op::Eq, 1 => Op::Ne, 2 => Op::Lt, 3 => Op::Gt, 4 => Op::Lte, _ => Op::Gte };
    let t: i64 = kani::any(); let a: i64 = kani::any(); let b: i64 = kani::any();
    let ns: u32 = kani::any();
    kani::assume(a <= b && ns < 1_000_000_000);
    kani::cover!(ns > 0);
    // the entry time may have a sub-second part; the comparison is on whole seconds (the property's time grid)
    assert!(Some(frag_cmp_datetime(&op, &FV::time(t, ns), &FV::date(a, b))) == spec_rel_date(&op, t, a, b), "OBL C13.cmp.datetime");
}
#[kani::proof]
fn c13_trichotomy() {
    let t: i64 = kani::any(); let a: i64 = kani::any(); let b: i64 = kani::any();
    kani::assume(a <= b);
    let n = frag_cmp_datetime(&Op::Lt, &FV::date(t, t), &FV::date(a, b)) as u8 + frag_cmp_datetime(&Op::Eq, &FV::date(t, t), &FV::date(a, b)) as u8
        + frag_cmp_datetime(&Op::Gt, &FV::date(t, t), &FV::date(a, b)) as u8;
    kani::cover!(true);
    assert!(n == 1, "OBL C13.trichotomy: exactly one of < = > holds");
    assert!(frag_cmp_datetime(&Op::Ne, &FV::date(t, t), &FV::date(a, b)) == !frag_cmp_datetime(&Op::Eq, &FV::date(t, t), &FV::date(a, b)), "OBL C13 != is the complement of =");
}
// C03: each negative comparison is the complement of its positive counterpart, per typed arm, with the REAL
// Op::negate table (crate::operators::Op::negate).
#[kani::proof]
fn c03_negate_complement_int() {
    let op = any_cmp_op(); let f: i64 = kani::any(); let v: i64 = kani::any();
    kani::cover!(true);
    assert!(frag_cmp_int(&Op::negate(op), &FV::int(f), &FV::int(v)) == !frag_cmp_int(&op, &FV::int(f), &FV::int(v)), "OBL C03.negate.complement.int");
}
#[kani::proof]
fn c03_negate_complement_float() {
    let op = any_cmp_op(); let f: f64 = kani::any(); let v: f64 = kani::any();
    kani::assume(!f.is_nan() && !v.is_nan());
    kani::cover!(true);
    assert!(frag_cmp_float(&Op::negate(op), &FV::float(f), &FV::float(v)) == !frag_cmp_float(&op, &FV::float(f), &FV::float(v)), "OBL C03.negate.complement.float");
}
#[kani::proof]
fn c03_negate_complement_bool() {
    // ordering ops on symbolic bools: see c02_cmp_bool
    let op = any_eq_op(); let f: bool = kani::any(); let v: bool = kani::any();
    kani::cover!(true);
    assert!(frag_cmp_bool(&Op::negate(op), &FV::boolean(f), &FV::boolean(v)) == !frag_cmp_bool(&op, &FV::boolean(f), &FV::boolean(v)), "OBL C03.negate.complement.bool");
}
#[kani::proof]
fn c03_negate_complement_datetime() {
    let op = any_cmp_op(); let t: i64 = kani::any(); let a: i64 = kani::any(); let b: i64 = kani::any();
    kani::assume(a <= b);
    kani::cover!(true);
    assert!(frag_cmp_datetime(&Op::negate(op), &FV::date(t, t), &FV::date(a, b)) == !frag_cmp_datetime(&op, &FV::date(t, t), &FV::date(a, b)),
            "OBL C03.negate.complement.datetime");
}
#[kani::proof]
fn canary_cmp_must_fail() {
    let f: i64 = kani::any();
    assert!(frag_cmp_int(&Op::Gt, &FV::int(f), &FV::int(0)), "CANARY must fail");
}
