fn any_now() -> NaiveDateTime {
    let n = NaiveDateTime { y: kani::any(), mo: kani::any(), d: kani::any(), h: kani::any(), mi: kani::any(), s: kani::any() };
    kani::assume(n.y >= 1970 && n.y <= 9999 && n.mo >= 1 && n.mo <= 12 && n.d >= 1 && n.d <= days_in_month(n.y, n.mo) && n.h < 24 && n.mi < 60 && n.s < 60);
    n
}
// C19: a member is reported "with its stored modification time" - whatever the day on which the search runs: for EVERY current date and time and
// EVERY stored timestamp that names an existing date, the value has exactly the stored fields (no panic, nothing of the current date)
#[kani::proof]
fn c19_zipdate() {
    kani::cover!(true);
    unsafe { NOW = any_now(); }
    let dt = zip::DateTime { y: kani::any(), mo: kani::any(), d: kani::any(), h: kani::any(), mi: kani::any(), s: kani::any() };
    kani::assume(dt.y >= 1980 && dt.y <= 2107 && dt.mo >= 1 && dt.mo <= 12 && dt.d >= 1 && dt.d as u32 <= days_in_month(dt.y as i32, dt.mo as u32) && dt.h < 24 && dt.mi < 60 && dt.s < 60);
    kani::cover!(dt.mo == 2 && dt.d == 29, "29 February is among the stored dates");
    kani::cover!(unsafe { NOW.d } == 31 && dt.mo == 2, "a search on the 31st over a February member is among the cases");
    let r = to_local_datetime(&dt);
    assert!(r.y == dt.y as i32 && r.mo == dt.mo as u32 && r.d == dt.d as u32, "OBL C19.zipdate: the date is the stored date, whatever the current date");
    assert!(r.h == dt.h as u32 && r.mi == dt.mi as u32 && r.s == dt.s as u32, "OBL C19.zipdate: the time of day is the stored one");
}
// a stored timestamp that names no existing date (zip stores raw bit fields) does not abort the search
#[kani::proof]
fn c19_zipdate_total() {
    kani::cover!(true);
    unsafe { NOW = any_now(); }
    let dt = zip::DateTime { y: kani::any(), mo: kani::any(), d: kani::any(), h: kani::any(), mi: kani::any(), s: kani::any() };
    let _ = to_local_datetime(&dt);
}
#[kani::proof]
fn canary_zipdate_must_fail() {
    let dt = zip::DateTime { y: 2020, mo: 2, d: 29, h: 1, mi: 2, s: 3 };
    assert!(to_local_datetime(&dt).d == 28, "CANARY must fail");
}
