fn any_options() -> RootOptions {
    RootOptions { min_depth: kani::any(), max_depth: kani::any(), archives: kani::any(), symlinks: kani::any(), gitignore: kani::any(),
                  hgignore: kani::any(), dockerignore: kani::any(), traversal: if kani::any() { TraversalMode::Bfs } else { TraversalMode::Dfs }, regexp: false }
}
// C01: every root is traversed with ITS OWN options: depth window, symlink following, traversal mode; the level counter
// starts at the root (root_depth 0) and the bfs queue is drained by this call.
#[kani::proof]
#[kani::unwind(4)]
fn c01_per_root() {
    let before: bool = kani::any();          // whatever an earlier root left behind
    let mut s = Searcher::new(before);
    let o = any_options();
    s.frag_per_root(Root { path: String::new(), options: o });
    kani::cover!(before && !o.symlinks);
    assert!(s.calls.len() == 1, "OBL C01.roots: the root is traversed exactly once");
    let c = s.calls[0];
    assert!(c.follow == o.symlinks && s.current_follow_symlinks == o.symlinks, "OBL C01.roots: symlinks are followed for this root iff ITS option says so (no carry-over from an earlier root)");
    assert!(c.min_depth == o.min_depth && c.max_depth == o.max_depth && c.root_depth == 0, "OBL C01.roots: the root's own depth window, levels counted from this root");
    assert!(c.mode == o.traversal && c.process_queue && s.dir_queue.cleared, "OBL C01.roots: the root's traversal mode; the bfs queue starts empty and is drained by this call");
    assert!(c.archives == o.archives, "OBL C01.roots: archives option");
    assert!(c.git == o.gitignore.unwrap_or(false) && c.hg == o.hgignore.unwrap_or(false) && c.docker == o.dockerignore.unwrap_or(false),
            "OBL C01.roots: ignore options: root option, else configuration default (None here), else off");
}
// C01: visit_dir lists a directory unless it is following symlinks and has already been there; the depth window never
// suppresses a whole directory up front (the gates inside decide per entry).
#[kani::proof]
#[kani::unwind(4)]
fn c01_prologue() {
    let follow: bool = kani::any(); let seen: bool = kani::any();
    let min: u32 = kani::any(); let max: u32 = kani::any(); let rd: u32 = kani::any();
    let mut s = Searcher::new(follow);
    if seen { s.visited_dirs.items.push(PathBuf(7)); }
    let r = s.frag_prologue(&THE_PATH, min, max, rd);
    kani::cover!(min == max && max > 0);
    assert!(r.is_ok() == (follow && seen), "OBL C01.prologue: a directory is skipped up front only when following symlinks and already visited - never because of the depth window");
}
// C01: "symbolic links are listed but not descended into unless `symlinks` is given"; a directory is entered at most once,
// identified by the ENTRY'S OWN inode - looking at an unfollowed link must not mark its target as visited.
#[kani::proof]
#[kani::unwind(4)]
fn c01_ok_to_visit() {
    let follow: bool = kani::any(); let is_link: bool = kani::any();
    let own: u64 = kani::any(); let target: u64 = kani::any(); let seen: u64 = kani::any();
    kani::assume(own != target);
    let mut s = Searcher::new(follow);
    s.visited_inodes.items.push(seen);
    let e = DirEntry { own_ino: own, target_ino: if is_link { target } else { own } };
    let r = s.ok_to_visit_dir(&e, FileType { symlink: is_link });
    kani::cover!(is_link && !follow && seen != own);
    assert!(r == (seen != own && (follow || !is_link)), "OBL C01.ok_to_visit: enter iff not yet visited and (not a symlink or symlinks are followed)");
    assert!(s.visited_inodes.contains(&own) || seen == own, "OBL C01.ok_to_visit: the entry's own inode is recorded");
    if is_link && seen != target { assert!(!s.visited_inodes.contains(&target), "OBL C01.ok_to_visit: looking at a link does not mark its target as visited"); }
}
#[kani::proof]
#[kani::unwind(4)]
fn canary_traversal_must_fail() {
    let mut s = Searcher::new(false);
    let o = RootOptions { min_depth: 1, max_depth: 2, archives: false, symlinks: true, gitignore: None, hgignore: None, dockerignore: None, traversal: TraversalMode::Dfs, regexp: false };
    s.frag_per_root(Root { path: String::new(), options: o });
    assert!(s.calls[0].max_depth == 3, "CANARY must fail");
}
