// Shim world for Searcher::partition_output_buffer (Engine F; C08): texts are one-byte tokens, HashMap and Vec are heap-free array-backed stand-ins
// with the std method names (M20). Slots are MaybeUninit (valid below `n`), not Option: CBMC reports spurious `unwrap on None` for arrays of Option
// nested inside Option (niche encoding; measured, the counterexample passes natively).
use core::mem::MaybeUninit;
pub const CAP: usize = 4;
#[derive(Clone, Copy, PartialEq, Eq, Debug)] pub struct String(pub u8);
impl String { pub fn new() -> String { String(0) } pub fn to_string(&self) -> String { *self } }
pub struct Vec<T> { pub items: [MaybeUninit<T>; CAP], pub n: usize }
impl<T> Vec<T> {
    pub fn new() -> Vec<T> { Vec { items: unsafe { MaybeUninit::uninit().assume_init() }, n: 0 } }
    pub fn push(&mut self, v: T) { if self.n < CAP { self.items[self.n] = MaybeUninit::new(v); self.n += 1; } else { kani::assume(false); } }
    pub fn len(&self) -> usize { self.n }
    pub fn is_empty(&self) -> bool { self.n == 0 }
    pub fn get(&self, i: usize) -> Option<&T> { if i < self.n { Some(unsafe { self.items[i].assume_init_ref() }) } else { None } }
    pub fn iter(&self) -> VecIter<'_, T> { VecIter { v: self, i: 0 } }
}
pub struct VecIter<'a, T> { v: &'a Vec<T>, i: usize }
impl<'a, T> Iterator for VecIter<'a, T> { type Item = &'a T; fn next(&mut self) -> Option<&'a T> { let r = self.v.get(self.i); if r.is_some() { self.i += 1; } r } }
impl<T: PartialEq> PartialEq for Vec<T> { fn eq(&self, o: &Vec<T>) -> bool { if self.n != o.n { return false; } let mut i = 0; while i < self.n { if self.get(i) != o.get(i) { return false; } i += 1; } true } }
impl<T: Clone> Clone for Vec<T> { fn clone(&self) -> Vec<T> { let mut v = Vec::new(); let mut i = 0; while i < self.n { v.push(self.get(i).unwrap().clone()); i += 1; } v } }
impl<T> core::iter::FromIterator<T> for Vec<T> { fn from_iter<I: IntoIterator<Item = T>>(it: I) -> Vec<T> { let mut v = Vec::new(); for x in it { v.push(x); } v } }
macro_rules! vec { ($($x:expr),* $(,)?) => {{ let mut v = Vec::new(); $( v.push($x); )* v }}; }
pub struct HashMap<K, V> { pub items: [MaybeUninit<(K, V)>; CAP], pub n: usize }
impl<K: PartialEq, V> HashMap<K, V> {
    pub fn new() -> HashMap<K, V> { HashMap { items: unsafe { MaybeUninit::uninit().assume_init() }, n: 0 } }
    fn at(&self, i: usize) -> &(K, V) { unsafe { self.items[i].assume_init_ref() } }
    fn find(&self, k: &K) -> Option<usize> { let mut i = 0; while i < self.n { if self.at(i).0 == *k { return Some(i); } i += 1; } None }
    pub fn contains_key(&self, k: &K) -> bool { self.find(k).is_some() }
    pub fn get(&self, k: &K) -> Option<&V> { match self.find(k) { Some(i) => Some(&self.at(i).1), None => None } }
    pub fn get_mut(&mut self, k: &K) -> Option<&mut V> { match self.find(k) { Some(i) => Some(unsafe { &mut self.items[i].assume_init_mut().1 }), None => None } }
    pub fn insert(&mut self, k: K, v: V) -> Option<V> {
        match self.find(&k) {
            Some(i) => Some(core::mem::replace(unsafe { &mut self.items[i].assume_init_mut().1 }, v)),
            None => { if self.n < CAP { self.items[self.n] = MaybeUninit::new((k, v)); self.n += 1; } else { kani::assume(false); } None }
        }
    }
    pub fn len(&self) -> usize { self.n }
}
impl<K: PartialEq + Clone, V: Clone> Clone for HashMap<K, V> { fn clone(&self) -> HashMap<K, V> { let mut m = HashMap::new(); let mut i = 0; while i < self.n { let kv = self.at(i); m.items[i] = MaybeUninit::new((kv.0.clone(), kv.1.clone())); i += 1; } m.n = self.n; m } }
#[derive(Clone, Copy)] pub struct Expr { pub id: u8 }
impl Expr { pub fn to_string(&self) -> String { String(self.id) } }
pub struct Query { pub grouping_fields: Vec<Expr> }
pub struct Searcher { pub query: Query, pub raw_output_buffer: Vec<HashMap<String, String>> }
