// ---- shim world: same member names as the real types; everything is flat / Copy or held by 'static references ----
pub struct DirEntry;
pub struct FileInfo;
/// value = which expression it is the value of (expression id), or a special tag
#[derive(Clone, Copy, PartialEq, Debug)]
pub struct Variant { pub of: u8, pub tag: u8 }
#[derive(Clone, Copy, PartialEq, Debug)] pub enum VariantType { String, Int, Float, Bool, DateTime }
impl Variant {
    pub fn empty(_t: VariantType) -> Variant { Variant { of: 0, tag: 1 } }        // tag 1: empty value
    pub fn from_int(_v: i64) -> Variant { Variant { of: 0, tag: 2 } }
    pub fn from_float(_v: f64) -> Variant { Variant { of: 0, tag: 3 } }
    pub fn from_bool(_v: bool) -> Variant { Variant { of: 0, tag: 4 } }
    pub fn from_string(_v: &String) -> Variant { Variant { of: 0, tag: 7 } }      // tag 7: "built from the aggregate result text"
    pub fn to_string(&self) -> String { let mut s = String::new(); s.push((b'0' + self.of) as char); s }
}
#[derive(Clone, Copy, PartialEq)] pub struct Function { pub aggregate: bool }
impl Function { pub fn is_aggregate_function(&self) -> bool { self.aggregate } }
/// a non-owning stand-in for std Box (leaks its content): same syntax at the use sites (`Box::from(x)`, `&Box<Expr>` derefs to
/// `&Expr`), but no recursive drop glue, which makes CBMC explode on recursive types
pub struct Box<T: 'static>(pub &'static T);
impl<T: 'static> Box<T> { pub fn new(t: T) -> Box<T> { Box(std::boxed::Box::leak(std::boxed::Box::new(t))) } }
impl<T: 'static> From<T> for Box<T> { fn from(t: T) -> Box<T> { Box::new(t) } }
impl<T: 'static> std::ops::Deref for Box<T> { type Target = T; fn deref(&self) -> &T { self.0 } }
pub struct Expr {
    pub id: u8, pub left: Option<Box<Expr>>, pub right: Option<Box<Expr>>, pub function: Option<Function>,
    pub args: Option<Vec<&'static Expr>>, pub val: Option<String>, pub key: &'static str,
}
pub fn leak(e: Expr) -> &'static Expr { std::boxed::Box::leak(std::boxed::Box::new(e)) }
impl Expr {
    pub fn value(_v: String) -> Expr { Expr { id: 99, left: None, right: None, function: None, args: None, val: None, key: "dummy" } }
    pub fn to_string(&self) -> String { String::from(self.key) }
    pub fn leaf(id: u8, key: &'static str) -> Expr { Expr { id, left: None, right: None, function: None, args: None, val: None, key } }
}
pub struct HashMap<K, V> { pub items: Vec<(K, V)> }
impl HashMap<String, String> {
    pub fn new() -> Self { HashMap { items: Vec::new() } }
    pub fn insert(&mut self, k: String, v: String) { self.items.push((k, v)); }
}
/// log of what happened, in order: (1, expr id, map_was_empty) = an expression was evaluated; (2, ..) aggregate computed;
/// (3, ..) scalar function computed
pub struct Searcher { pub log: Vec<(u8, u8, bool)>, pub raw_output_buffer: Vec<HashMap<String, String>>, pub agg_key: Option<String>,
                      pub scalar_arg: Option<String>, pub scalar_args: Vec<String> }
impl Searcher {
    pub fn new() -> Searcher { Searcher { log: Vec::new(), raw_output_buffer: Vec::new(), agg_key: None, scalar_arg: None, scalar_args: Vec::new() } }
    pub fn get_column_expr_value(&mut self, _e: Option<&DirEntry>, _fi: &Option<FileInfo>, file_map: &mut HashMap<String, String>,
                                 _b: Option<&Vec<HashMap<String, String>>>, column_expr: &Expr) -> Variant {
        self.log.push((1, column_expr.id, file_map.items.is_empty()));
        file_map.insert(column_expr.to_string(), String::from("v"));     // what the real function does: it caches the value
        Variant { of: column_expr.id, tag: 0 }
    }
}
pub mod function {
    use super::*;
    pub static mut LAST_AGG_KEY: Option<String> = None;
    pub static mut SCALAR: Option<(String, Vec<String>)> = None;
    pub fn take_agg_key() -> Option<String> { unsafe { (*(&raw mut LAST_AGG_KEY)).take() } }
    pub fn take_scalar() -> Option<(String, Vec<String>)> { unsafe { (*(&raw mut SCALAR)).take() } }
    pub fn get_aggregate_value(_f: &Option<Function>, _buf: &Vec<HashMap<String, String>>, buffer_key: String, _default: &Option<String>) -> String {
        unsafe { *(&raw mut LAST_AGG_KEY) = Some(buffer_key); }
        String::from("agg")
    }
    pub fn get_value(_f: &Option<Function>, function_arg: String, function_args: Vec<String>, _e: Option<&DirEntry>, _fi: &Option<FileInfo>) -> Variant {
        unsafe { *(&raw mut SCALAR) = Some((function_arg, function_args)); }
        Variant { of: 0, tag: 8 }                                          // tag 8: "result of the scalar function"
    }
}
