// ---- shim world for the per-root set-up and the visit_dir prologue ------------------------------------------------
#[derive(Clone, Copy, PartialEq, Debug)] pub enum TraversalMode { Bfs, Dfs }
#[derive(Clone, Copy)] pub struct RootOptions { pub min_depth: u32, pub max_depth: u32, pub archives: bool, pub symlinks: bool,
    pub gitignore: Option<bool>, pub hgignore: Option<bool>, pub dockerignore: Option<bool>, pub traversal: TraversalMode, pub regexp: bool }
pub struct Root { pub path: String, pub options: RootOptions }
pub struct Path;
static THE_PATH: Path = Path;
pub struct PathBuf(pub u8);
impl PartialEq for PathBuf { fn eq(&self, o: &PathBuf) -> bool { self.0 == o.0 } }
pub struct Meta { pub i: u64 }
impl Meta { pub fn ino(&self) -> u64 { self.i } }
impl Path {
    pub fn new(_p: &String) -> &'static Path { &THE_PATH }
    pub fn metadata(&self) -> Result<Meta, ()> { Ok(Meta { i: 42 }) }
    pub fn to_path_buf(&self) -> PathBuf { PathBuf(7) }
    // the one scripted directory is its own real directory
    pub fn canonicalize(&self) -> Result<PathBuf, ()> { Ok(PathBuf(7)) }
}
pub fn symlink_metadata(_p: &Path) -> Result<Meta, ()> { Ok(Meta { i: 42 }) }
/// a directory entry: its own inode (lstat) and the inode of what it points to when it is a symlink
pub struct DirEntry { pub own_ino: u64, pub target_ino: u64 }
pub struct EntryPath { pub target_ino: u64 }
impl DirEntry { pub fn ino(&self) -> u64 { self.own_ino } pub fn path(&self) -> EntryPath { EntryPath { target_ino: self.target_ino } } }
#[derive(Clone, Copy)] pub struct FileType { pub symlink: bool }
impl FileType { pub fn is_symlink(&self) -> bool { self.symlink } pub fn is_dir(&self) -> bool { !self.symlink } }
/// std::fs stand-ins that FOLLOW symlinks
pub mod fs { use super::*; pub fn metadata(p: EntryPath) -> Result<Meta, ()> { Ok(Meta { i: p.target_ino }) } }
pub mod std { pub use super::fs; }
pub struct Repo;
pub struct Repository;
impl Repository { pub fn discover(_p: &&Path) -> Result<Repo, ()> { Err(()) } }
pub struct Filters;
pub fn search_upstream_hgignore(_f: &mut Filters, _d: &Path) {}
pub fn search_upstream_dockerignore(_f: &mut Filters, _d: &Path) {}
pub struct Config { pub gitignore: Option<bool>, pub hgignore: Option<bool>, pub dockerignore: Option<bool> }
pub struct Queue { pub cleared: bool }
impl Queue { pub fn clear(&mut self) { self.cleared = true; } }
pub struct Set<T> { pub items: Vec<T> }
impl<T: PartialEq> Set<T> {
    pub fn insert(&mut self, t: T) -> bool { if self.contains(&t) { false } else { self.items.push(t); true } }
    pub fn contains(&self, t: &T) -> bool { let mut i = 0; while i < self.items.len() { if &self.items[i] == t { return true; } i += 1; } false }
}
#[derive(Clone, Copy, PartialEq, Debug)]
pub struct Call { pub min_depth: u32, pub max_depth: u32, pub root_depth: u32, pub archives: bool, pub git: bool, pub hg: bool, pub docker: bool,
                  pub mode: TraversalMode, pub process_queue: bool, pub follow: bool }
pub struct Searcher { pub current_follow_symlinks: bool, pub config: Config, pub hgignore_filters: Filters, pub dockerignore_filters: Filters,
                      pub dir_queue: Queue, pub visited_inodes: Set<u64>, pub visited_dirs: Set<PathBuf>, pub calls: Vec<Call> }
impl Searcher {
    pub fn new(follow: bool) -> Searcher {
        Searcher { current_follow_symlinks: follow, config: Config { gitignore: None, hgignore: None, dockerignore: None }, hgignore_filters: Filters,
                   dockerignore_filters: Filters, dir_queue: Queue { cleared: false }, visited_inodes: Set { items: Vec::new() },
                   visited_dirs: Set { items: Vec::new() }, calls: Vec::new() }
    }
    #[allow(clippy::too_many_arguments)]
    pub fn visit_dir(&mut self, _dir: &Path, min_depth: u32, max_depth: u32, root_depth: u32, search_archives: bool, apply_gitignore: bool,
                     _git_repository: Option<&Repo>, apply_hgignore: bool, apply_dockerignore: bool, traversal_mode: TraversalMode,
                     process_queue: bool) -> Result<(), ()> {
        self.calls.push(Call { min_depth, max_depth, root_depth, archives: search_archives, git: apply_gitignore, hg: apply_hgignore,
                               docker: apply_dockerignore, mode: traversal_mode, process_queue, follow: self.current_follow_symlinks });
        Ok(())
    }
}
