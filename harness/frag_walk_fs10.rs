pub const N: usize = 13;
pub const INSIDE: usize = 8;        // nodes below this id (and the links 10, 11, 12) live under the root
pub const ROOT_DEPTH: u32 = 3;          // the root is /a/b/root
pub const PARENT: [u8; N] = [0, 0, 0, 1, 1, 4, 4, 0, 255, 8, 0, 0, 4];
pub const IS_DIR: [bool; N] = [true, true, false, false, true, false, false, false, true, false, false, false, false];
pub const IS_LINK: [bool; N] = [false, false, false, false, false, false, true, true, false, false, true, true, true];
pub const TARGET: [u8; N] = [0, 0, 0, 0, 0, 0, 1, 8, 0, 0, 2, 255, 0];
pub const TARGET_RELATIVE: [bool; N] = [false, false, false, false, false, false, false, true, false, false, false, false, false];
pub const LEVEL: [u32; N] = [0, 1, 1, 2, 2, 3, 3, 1, 0, 1, 1, 1, 3];
// canonical depth (number of path separators): the root is /a/b/root, directory 8 is /x/out
pub const CDEPTH: [u32; N] = [3, 4, 4, 5, 5, 6, 6, 4, 2, 3, 4, 4, 6];
/*--*/
pub static PATHS: [Path; N] = [Path(0, false), Path(1, false), Path(2, false), Path(3, false), Path(4, false), Path(5, false), Path(6, false), Path(7, false), Path(8, false), Path(9, false), Path(10, false), Path(11, false), Path(12, false)];
