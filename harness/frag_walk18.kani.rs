use self::world::*;
fn walk(min: u32, max: u32, mode: TraversalMode, limit: u32, buffered: bool) -> Searcher { walk_a(min, max, mode, limit, buffered, false, false) }
fn walk_a(min: u32, max: u32, mode: TraversalMode, limit: u32, buffered: bool, archives: bool, follow: bool) -> Searcher {
    walk_f(min, max, mode, limit, buffered, archives, follow, true)
}
fn walk_f(min: u32, max: u32, mode: TraversalMode, limit: u32, buffered: bool, archives: bool, follow: bool, reset: bool) -> Searcher {
    if reset { reset_faults(); }
    let mut s = Searcher { query: Query { limit }, found: 0, buffered, current_follow_symlinks: follow, visited_dirs: Set { seen: [false; N] }, visited_inodes: InoSet { seen: [false; N] },
                           dir_queue: Queue { items: [(0, false); N], head: 0, tail: 0 }, error_count: 0, hgignore_filters: Filters, dockerignore_filters: Filters, log: [0; 12], n: 0 };
    let r = s.visit_dir(&Path(0, false), min, max, 0, archives, false, None, false, false, mode, true);
    assert!(r.is_ok(), "OBL C01.walk: no error");
    s
}
fn count(s: &Searcher, code: u8) -> usize { let mut c = 0; let mut i = 0; while i < s.n { if s.log[i] == code { c += 1; } i += 1; } c }
fn in_window(node: usize, min: u32, max: u32) -> bool { (min == 0 || LEVEL[node] >= min) && (max == 0 || LEVEL[node] <= max) }
// C18: with `symlinks` the search goes through links - absolute or relative target - lists what is behind them, traverses every real directory once,
// terminates on a link to an ancestor, and reports no error; a directory that lies less deep than the root is no problem
fn follow_check(mode: TraversalMode) {
    let s = walk_a(0, 0, mode, 0, false, false, true);
    let mut node = 1;
    while node < N {
        let expect = if node == 8 { 0 } else { 1 };      // 8 is the target directory itself: its CONTENT (9) is listed; all five links are listed
        assert!(count(&s, node as u8) == expect, "OBL C18.walk.follow: every entry under the root or behind a link is listed exactly once");
        node += 1;
    }
    assert!(s.n == 11, "OBL C18.walk.follow: nothing else is listed (a link to an ancestor or to the root itself does not replay it; a link to a file and a dangling link are just listed)");
    assert!(s.error_count == 0, "OBL C18.walk.follow: no error when nothing is unreadable (relative target resolved against the directory of the link)");
}
#[kani::proof]
#[kani::unwind(14)]
fn c18_walk_follow_bfs() { kani::cover!(true); follow_check(TraversalMode::Bfs); }
#[kani::proof]
#[kani::unwind(14)]
fn c18_walk_follow_dfs() { kani::cover!(true); follow_check(TraversalMode::Dfs); }
// without the option no row comes from behind a link: links are listed, not followed
#[kani::proof]
#[kani::unwind(14)]
fn c18_walk_nofollow() {
    kani::cover!(true);
    let s = walk(0, 0, TraversalMode::Bfs, 0, false);
    assert!(s.n == 10 && count(&s, 6) == 1 && count(&s, 7) == 1 && count(&s, 10) == 1 && count(&s, 11) == 1 && count(&s, 12) == 1 && count(&s, 8) == 0 && count(&s, 9) == 0, "OBL C18.walk.nofollow: links are listed once, nothing behind them");
    assert!(s.error_count == 0, "OBL C18.walk.nofollow: no error");
}
#[kani::proof]
#[kani::unwind(14)]
fn canary_walk18_must_fail() {
    let s = walk(0, 1, TraversalMode::Bfs, 0, false);
    assert!(s.n == 10, "CANARY must fail");
}
