// shim result types: record which Variant constructor the arm called and with what value
#[derive(Debug, Clone, PartialEq)]
pub enum VariantType { String, Int, Float, Bool, DateTime }
#[derive(Debug, Clone, PartialEq)]
pub enum Variant { Str(String), Int(i64), Float(f64), Bool(bool), Empty(VariantType) }
impl Variant {
    pub fn from_string(value: &String) -> Variant { Variant::Str(value.to_owned()) }
    pub fn from_int(value: i64) -> Variant { Variant::Int(value) }
    pub fn from_float(value: f64) -> Variant { Variant::Float(value) }
    pub fn from_bool(value: bool) -> Variant { Variant::Bool(value) }
    pub fn empty(t: VariantType) -> Variant { Variant::Empty(t) }
}
#[allow(unused_imports)]
use crate::util::capitalize;
fn is_float(v: &Variant, x: f64) -> bool { matches!(v, Variant::Float(f) if *f == x) }
fn sv(x: &str) -> String { String::from(x) }
fn is_str(v: &Variant, x: &str) -> bool { matches!(v, Variant::Str(s) if s == x) }
fn is_empty_value(v: &Variant) -> bool { matches!(v, Variant::Empty(_)) || is_str(v, "") }
