// shim result types: record which Variant constructor the arm called and with what value
#[derive(Debug, Clone, PartialEq)]
pub enum VariantType { String, Int, Float, Bool, DateTime }
#[derive(Debug, Clone, PartialEq)]
pub enum Variant { Str(String), Int(i64), Float(f64), Bool(bool), Empty(VariantType) }
impl Variant {
    pub fn from_string(value: &String) -> Variant { Variant::Str(value.to_owned()) }
    pub fn from_int(value: i64) -> Variant { Variant::Int(value) }
    pub fn from_float(value: f64) -> Variant { Variant::Float(value) }
    pub fn from_bool(value: bool) -> Variant { Variant::Bool(value) }
    pub fn empty(t: VariantType) -> Variant { Variant::Empty(t) }
}
#[allow(unused_imports)]
use crate::util::capitalize;
fn is_float(v: &Variant, x: f64) -> bool { matches!(v, Variant::Float(f) if *f == x) }
fn sv(x: &str) -> String { String::from(x) }
fn is_str(v: &Variant, x: &str) -> bool { matches!(v, Variant::Str(s) if s == x) }
fn is_empty_value(v: &Variant) -> bool { matches!(v, Variant::Empty(_)) || is_str(v, "") }

// ---- shim calendar values for the YEAR / MONTH / DAY / DOW arms: parse_datetime answers with the date the harness states ----
#[derive(Clone, Copy)] pub struct SWeekday(pub u32);   // days since Sunday, 0..6
impl SWeekday {
    pub fn number_from_sunday(&self) -> u32 { self.0 + 1 }
    pub fn num_days_from_sunday(&self) -> u32 { self.0 }
    pub fn number_from_monday(&self) -> u32 { (self.0 + 6) % 7 + 1 }
    pub fn num_days_from_monday(&self) -> u32 { (self.0 + 6) % 7 }
}
#[derive(Clone, Copy)] pub struct SDate { pub y: i32, pub m: u32, pub d: u32, pub wd: u32 }
impl SDate {
    pub fn year(&self) -> i32 { self.y }
    pub fn month(&self) -> u32 { self.m }
    pub fn day(&self) -> u32 { self.d }
    pub fn weekday(&self) -> SWeekday { SWeekday(self.wd) }
}
pub static mut PARSED: Option<SDate> = None;
pub fn parse_datetime(_s: &str) -> Result<(SDate, SDate), String> { unsafe { match PARSED { Some(d) => Ok((d, d)), None => Err(String::new()) } } }
