// Shim world for the WHOLE util::get_line_count and util::is_shebang (Engine F; C17): a scripted file of up to three chunks of one to three bytes,
// which either cannot be opened, or whose read fails when chunk FAIL_AT (or, with FAIL_AT == number of chunks, the end of file) is due.
// Like the real BufReader, fill_buf hands out an empty slice only at the end of the file.
pub static mut OPEN_FAILS: bool = false;
pub static mut FAIL_AT: usize = usize::MAX;
pub static mut NCHUNKS: usize = 0;
pub static mut LENS: [usize; 3] = [1; 3];
pub static mut DATA: [[u8; 3]; 3] = [[0; 3]; 3];
pub struct DirEntry;
pub struct PathBuf;
impl DirEntry { pub fn path(&self) -> PathBuf { PathBuf } }
pub mod io { #[derive(Clone, Copy, PartialEq, Eq, Debug)] pub enum ErrorKind { Other, Interrupted, UnexpectedEof }
    #[derive(Clone, Copy, Debug)] pub struct Error(pub ErrorKind); impl Error { pub fn kind(&self) -> ErrorKind { self.0 } }
    pub type Result<T> = core::result::Result<T, Error>; }
pub struct File { n: usize, lens: [usize; 3], data: [[u8; 3]; 3], fail_at: usize, chunk: usize, pos: usize }
impl File {
    pub fn open<P>(_p: P) -> io::Result<File> {
        unsafe { if OPEN_FAILS { Err(io::Error(io::ErrorKind::Other)) } else { Ok(File { n: NCHUNKS, lens: LENS, data: DATA, fail_at: FAIL_AT, chunk: 0, pos: 0 }) } }
    }
    fn rest(&mut self) -> io::Result<&[u8]> {
        if self.chunk < self.n && self.pos >= self.lens[self.chunk] { self.chunk += 1; self.pos = 0; }
        if self.chunk == self.fail_at { return Err(io::Error(io::ErrorKind::Other)); }
        if self.chunk >= self.n { return Ok(&[]); }
        Ok(&self.data[self.chunk][self.pos..self.lens[self.chunk]])
    }
    // like Read::read: copies at most out.len() bytes of the current chunk and says how many (0 only at the end of the file)
    pub fn read(&mut self, out: &mut [u8]) -> io::Result<usize> {
        let mut k = 0;
        { let b = match self.rest() { Ok(b) => b, Err(e) => return Err(e) };
          while k < b.len() && k < out.len() { out[k] = b[k]; k += 1; } }
        self.pos += k;
        Ok(k)
    }
}
pub struct BufReader { f: File }
impl BufReader {
    pub fn with_capacity(_c: usize, f: File) -> BufReader { BufReader { f } }
    pub fn new(f: File) -> BufReader { BufReader { f } }
    pub fn fill_buf(&mut self) -> io::Result<&[u8]> { self.f.rest() }
    pub fn consume(&mut self, n: usize) { self.f.pos += n; }
    // like std: fills the whole buffer or fails (a read error, or the end of the file before the buffer is full)
    pub fn read_exact(&mut self, out: &mut [u8]) -> io::Result<()> {
        let mut k = 0;
        while k < out.len() {
            let b = match self.fill_buf() { Ok(b) => b, Err(e) => return Err(e) };
            if b.is_empty() { return Err(io::Error(io::ErrorKind::UnexpectedEof)); }
            out[k] = b[0];
            k += 1;
            self.consume(1);
        }
        Ok(())
    }
}
pub mod bytecount { pub fn count(buf: &[u8], b: u8) -> usize { let mut c = 0; let mut i = 0; while i < buf.len() { if buf[i] == b { c += 1; } i += 1; } c } }
