// Shim world for the WHOLE util::get_line_count and util::is_shebang (Engine F; C17): a scripted file of up to three chunks of one to three bytes,
// which either cannot be opened, or whose read fails when chunk FAIL_AT (or, with FAIL_AT == number of chunks, the end of file) is due.
// Like the real BufReader, fill_buf hands out an empty slice only at the end of the file.
pub static mut OPEN_FAILS: bool = false;
pub static mut FAIL_AT: usize = usize::MAX;
pub static mut NCHUNKS: usize = 0;
pub static mut LENS: [usize; 3] = [1; 3];
pub static mut DATA: [[u8; 3]; 3] = [[0; 3]; 3];
pub struct DirEntry;
pub struct PathBuf;
impl DirEntry { pub fn path(&self) -> PathBuf { PathBuf } }
pub struct File { n: usize, lens: [usize; 3], data: [[u8; 3]; 3], fail_at: usize }
impl File {
    pub fn open<P>(_p: P) -> Result<File, ()> {
        unsafe { if OPEN_FAILS { Err(()) } else { Ok(File { n: NCHUNKS, lens: LENS, data: DATA, fail_at: FAIL_AT }) } }
    }
}
pub struct BufReader { f: File, chunk: usize, pos: usize }
impl BufReader {
    pub fn with_capacity(_c: usize, f: File) -> BufReader { BufReader { f, chunk: 0, pos: 0 } }
    pub fn new(f: File) -> BufReader { BufReader { f, chunk: 0, pos: 0 } }
    pub fn fill_buf(&mut self) -> Result<&[u8], ()> {
        if self.chunk < self.f.n && self.pos >= self.f.lens[self.chunk] { self.chunk += 1; self.pos = 0; }
        if self.chunk == self.f.fail_at { return Err(()); }
        if self.chunk >= self.f.n { return Ok(&[]); }
        Ok(&self.f.data[self.chunk][self.pos..self.f.lens[self.chunk]])
    }
    pub fn consume(&mut self, n: usize) { self.pos += n; }
    // like std: fills the whole buffer or fails (a read error, or the end of the file before the buffer is full)
    pub fn read_exact(&mut self, out: &mut [u8]) -> Result<(), ()> {
        let mut k = 0;
        while k < out.len() {
            let b = match self.fill_buf() { Ok(b) => b, Err(e) => return Err(e) };
            if b.is_empty() { return Err(()); }
            out[k] = b[0];
            k += 1;
            self.consume(1);
        }
        Ok(())
    }
}
pub mod bytecount { pub fn count(buf: &[u8], b: u8) -> usize { let mut c = 0; let mut i = 0; while i < buf.len() { if buf[i] == b { c += 1; } i += 1; } c } }
