use self::world::{Searcher, Query, Expr, HashMap as Map, Vec as SVec, String as Txt, Rc as SRc, ResultsWriter, num, tok};
// a buffered row: column "9" = row id, column "5" = first grouping key, column "6" = second grouping key
fn row(id: u8, k1: Txt, k2: Txt) -> Map<Txt, Txt> { let mut m = Map::new(); m.insert(num(9), num(id)); m.insert(num(5), k1); m.insert(num(6), k2); m }
fn query(two_keys: bool, order_by: Option<(u8, bool)>) -> Query {
    let mut fields = SVec::new(); fields.push(Expr { id: 5 }); fields.push(Expr { id: 7 });
    let mut g = SVec::new(); g.push(Expr { id: 5 }); if two_keys { g.push(Expr { id: 6 }); }
    let mut of = SVec::new(); let mut oa = SVec::new();
    if let Some((col, asc)) = order_by { of.push(Expr { id: col }); oa.push(asc); }
    Query { fields, grouping_fields: SRc::new(g), ordering_fields: SRc::new(of), ordering_asc: SRc::new(oa) }
}
fn world<'a>(q: &'a Query, rows: [Map<Txt, Txt>; 3]) -> Searcher<'a> {
    let mut b = SVec::new(); let [r1, r2, r3] = rows; b.push(r1); b.push(r2); b.push(r3);
    Searcher { query: q, raw_output_buffer: b, partitioned_output_buffer: SRc::new(Map::new()),
               results_writer: ResultsWriter { rows: [(0, 0); 4], n: 0, separators: 0, sep_before_first: false }, evals_with_entry: 0 }
}
fn one_key_rows(k: [u8; 3]) -> [Map<Txt, Txt>; 3] { [row(1, num(k[0]), tok("x")), row(2, num(k[1]), tok("x")), row(3, num(k[2]), tok("x"))] }
// (size of the group of `key`, ids of its rows in order; 0 = none)
fn group(p: &Map<SVec<Txt>, SVec<Map<Txt, Txt>>>, key: &SVec<Txt>) -> (usize, u8, u8, u8) {
    match p.get(key) {
        None => (0, 0, 0, 0),
        Some(rows) => { let id = |i: usize| match rows.get(i) { Some(r) => r.get(&num(9)).unwrap().value(), None => 0 }; (rows.len(), id(0), id(1), id(2)) }
    }
}
fn k1(v: u8) -> SVec<Txt> { let mut k = SVec::new(); k.push(num(v)); k }
// C08: one group per distinct key value; every buffered row lands in exactly the group of its own key, in buffer order
#[kani::proof]
#[kani::unwind(9)]
fn c08_partition() {
    let k: [u8; 3] = kani::any();
    kani::assume(k[0] >= 1 && k[0] <= 2 && k[1] >= 1 && k[1] <= 2 && k[2] >= 1 && k[2] <= 2);
    kani::cover!(k[0] == k[2] && k[0] != k[1]);
    kani::cover!(k[0] == k[1] && k[1] == k[2]);
    let q = query(false, None);
    let p = world(&q, one_key_rows(k)).partition_output_buffer();
    let distinct = if k[0] == k[1] && k[1] == k[2] { 1 } else { 2 };
    assert!(p.len() == distinct, "OBL C08.partition: one group per distinct key value");
    let (n1, a1, b1, c1) = group(&p, &k1(1));
    let (n2, a2, b2, c2) = group(&p, &k1(2));
    assert!(n1 + n2 == 3, "OBL C08.partition: every row is in exactly one group (group sizes add up to the number of rows)");
    let in1 = |id: u8| a1 == id || b1 == id || c1 == id;
    let in2 = |id: u8| a2 == id || b2 == id || c2 == id;
    assert!(in1(1) == (k[0] == 1) && in2(1) == (k[0] == 2) && in1(2) == (k[1] == 1) && in2(2) == (k[1] == 2) && in1(3) == (k[2] == 1) && in2(3) == (k[2] == 2),
            "OBL C08.partition: a row is in the group of its own key and in no other");
    assert!((b1 == 0 || a1 < b1) && (c1 == 0 || b1 < c1) && (b2 == 0 || a2 < b2) && (c2 == 0 || b2 < c2), "OBL C08.partition: rows keep their buffer order inside a group");
}
// a pair of keys is a pair: ("a","bc") and ("ab","c") are different groups although their texts concatenate to the same string
#[kani::proof]
#[kani::unwind(9)]
fn c08_partition_pairs() {
    kani::cover!(true);
    let q = query(true, None);
    let p = world(&q, [row(1, tok("a"), tok("bc")), row(2, tok("ab"), tok("c")), row(3, tok("a"), tok("bc"))]).partition_output_buffer();
    assert!(p.len() == 2, "OBL C08.partition.pairs: two distinct key pairs, two groups");
    let mut ka = SVec::new(); ka.push(tok("a")); ka.push(tok("bc"));
    let mut kb = SVec::new(); kb.push(tok("ab")); kb.push(tok("c"));
    assert!(group(&p, &ka) == (2, 1, 3, 0) && group(&p, &kb) == (1, 2, 0, 0), "OBL C08.partition.pairs: every row in the group of its own key pair");
}
// C08: one output row per distinct key value; it shows the key and the aggregate computed over the rows of that group only; the group counts add up to
// the number of buffered rows; rows are separated, not preceded, by separators
#[kani::proof]
#[kani::unwind(9)]
fn c08_group_rows() {
    let k: [u8; 3] = kani::any();
    kani::assume(k[0] >= 1 && k[0] <= 2 && k[1] >= 1 && k[1] <= 2 && k[2] >= 1 && k[2] <= 2);
    kani::cover!(k[0] != k[1]);
    kani::cover!(k[0] == k[1] && k[1] == k[2]);
    let q = query(false, None);
    let mut w = world(&q, one_key_rows(k));
    w.frag_grouped_output();
    let c1 = (k[0] == 1) as u8 + (k[1] == 1) as u8 + (k[2] == 1) as u8;
    let c2 = 3 - c1;
    let rw = &w.results_writer;
    let distinct = (c1 > 0) as usize + (c2 > 0) as usize;
    assert!(rw.n == distinct, "OBL C08.group.rows: exactly one row per distinct key value");
    let mut i = 0;
    let mut total = 0u8;
    while i < rw.n {
        let (key, cnt) = rw.rows[i];
        assert!((key == 1 && cnt == c1) || (key == 2 && cnt == c2), "OBL C08.group.rows: a group row shows its key and the COUNT of the rows with that key");
        total += cnt;
        i += 1;
    }
    assert!(total == 3, "OBL C08.group.rows: the group COUNTs add up to the ungrouped COUNT");
    assert!(rw.n < 2 || rw.rows[0].0 != rw.rows[1].0, "OBL C08.group.rows: no key value twice");
    assert!(rw.separators as usize + 1 == rw.n && !rw.sep_before_first, "OBL C08.group.rows: separators between rows only");
    assert!(w.evals_with_entry == 0, "OBL C08.group.rows: group rows are computed from the buffer, not from a directory entry");
}
// ORDER BY over an aggregate or over a numeric key sorts the group rows by value (9 before 10), ascending or descending
#[kani::proof]
#[kani::unwind(9)]
fn c08_group_order_desc() {
    kani::cover!(true);
    let q = query(false, Some((7, false)));          // ORDER BY COUNT(*) DESC: key 1 -> 1 row, key 2 -> 2 rows
    let mut w = world(&q, one_key_rows([1, 2, 2]));
    w.frag_grouped_output();
    assert!(w.results_writer.n == 2 && w.results_writer.rows[0] == (2, 2) && w.results_writer.rows[1] == (1, 1), "OBL C08.group.order: descending by COUNT");
}
#[kani::proof]
#[kani::unwind(9)]
fn c08_group_order_asc() {
    kani::cover!(true);
    let q2 = query(false, Some((7, true)));
    let mut w2 = world(&q2, one_key_rows([2, 2, 1]));
    w2.frag_grouped_output();
    assert!(w2.results_writer.n == 2 && w2.results_writer.rows[0] == (1, 1) && w2.results_writer.rows[1] == (2, 2), "OBL C08.group.order: ascending by COUNT");
}
#[kani::proof]
#[kani::unwind(9)]
fn c08_group_order_key() {
    kani::cover!(true);
    let q3 = query(false, Some((5, true)));          // ORDER BY the numeric grouping key: 9 < 10 < 12 (as text: 10 < 12 < 9)
    let mut w3 = world(&q3, one_key_rows([10, 9, 12]));
    w3.frag_grouped_output();
    assert!(w3.results_writer.n == 3 && w3.results_writer.rows[0].0 == 9 && w3.results_writer.rows[1].0 == 10 && w3.results_writer.rows[2].0 == 12, "OBL C08.group.order: a numeric key sorts by value, not as text");
}
// two ORDER BY keys with DIFFERENT directions, the groups tying on the first one: each key keeps its own direction
#[kani::proof]
#[kani::unwind(9)]
fn c08_group_order_mixed() {
    kani::cover!(true);
    let mut q4 = query(false, Some((7, false)));     // ORDER BY COUNT(*) DESC, key ASC: three groups of one row each tie on the count
    { let mut of = SVec::new(); of.push(Expr { id: 7 }); of.push(Expr { id: 5 }); let mut oa = SVec::new(); oa.push(false); oa.push(true);
      q4.ordering_fields = SRc::new(of); q4.ordering_asc = SRc::new(oa); }
    let mut w4 = world(&q4, one_key_rows([2, 1, 3]));
    w4.frag_grouped_output();
    assert!(w4.results_writer.n == 3 && w4.results_writer.rows[0] == (1, 1) && w4.results_writer.rows[1] == (2, 1) && w4.results_writer.rows[2] == (3, 1), "OBL C08.group.order.mixed: ties on a descending first key are ordered by the ascending second key");
}
#[kani::proof]
#[kani::unwind(9)]
fn canary_grouprows_must_fail() {
    let q = query(false, None);
    let mut w = world(&q, one_key_rows([1, 2, 1]));
    w.frag_grouped_output();
    assert!(w.results_writer.n == 3, "CANARY must fail");
}
