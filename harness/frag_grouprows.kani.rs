use self::world::{Searcher, Query, Expr, HashMap as Map, Vec as SVec, String as Tok, Rc as SRc, ResultsWriter};
fn row(id: u8, key: u8) -> Map<Tok, Tok> { let mut m = Map::new(); m.insert(Tok(9), Tok(id)); m.insert(Tok(5), Tok(key)); m }
fn query(order_by_count: Option<bool>) -> Query {
    let mut fields = SVec::new(); fields.push(Expr { id: 5 }); fields.push(Expr { id: 7 });
    let mut g = SVec::new(); g.push(Expr { id: 5 });
    let mut of = SVec::new(); let mut oa = SVec::new();
    if let Some(asc) = order_by_count { of.push(Expr { id: 7 }); oa.push(asc); }
    Query { fields, grouping_fields: SRc::new(g), ordering_fields: SRc::new(of), ordering_asc: SRc::new(oa) }
}
fn world<'a>(q: &'a Query, keys: [u8; 3]) -> Searcher<'a> {
    let mut b = SVec::new(); b.push(row(1, keys[0])); b.push(row(2, keys[1])); b.push(row(3, keys[2]));
    Searcher { query: q, raw_output_buffer: b, partitioned_output_buffer: SRc::new(Map::new()),
               results_writer: ResultsWriter { rows: [(0, 0); 4], n: 0, separators: 0, sep_before_first: false }, evals_with_entry: 0 }
}
// C08: one output row per distinct key value; it shows the key and the aggregate computed over the rows of that group only; the group counts add up to
// the number of buffered rows; rows are separated, not preceded, by separators
#[kani::proof]
#[kani::unwind(9)]
fn c08_group_rows() {
    let k: [u8; 3] = kani::any();
    kani::assume(k[0] >= 1 && k[0] <= 2 && k[1] >= 1 && k[1] <= 2 && k[2] >= 1 && k[2] <= 2);
    kani::cover!(k[0] != k[1]);
    kani::cover!(k[0] == k[1] && k[1] == k[2]);
    let q = query(None);
    let mut w = world(&q, k);
    w.frag_grouped_output();
    let c1 = (k[0] == 1) as u8 + (k[1] == 1) as u8 + (k[2] == 1) as u8;
    let c2 = 3 - c1;
    let rw = &w.results_writer;
    let distinct = (c1 > 0) as usize + (c2 > 0) as usize;
    assert!(rw.n == distinct, "OBL C08.group.rows: exactly one row per distinct key value");
    let mut i = 0;
    let mut total = 0u8;
    while i < rw.n {
        let (key, cnt) = rw.rows[i];
        assert!((key == 1 && cnt == c1) || (key == 2 && cnt == c2), "OBL C08.group.rows: a group row shows its key and the COUNT of the rows with that key");
        total += cnt;
        i += 1;
    }
    assert!(total == 3, "OBL C08.group.rows: the group COUNTs add up to the ungrouped COUNT");
    assert!(rw.n < 2 || rw.rows[0].0 != rw.rows[1].0, "OBL C08.group.rows: no key value twice");
    assert!(rw.separators as usize + 1 == rw.n && !rw.sep_before_first, "OBL C08.group.rows: separators between rows only");
    assert!(w.evals_with_entry == 0, "OBL C08.group.rows: group rows are computed from the buffer, not from a directory entry");
}
// ORDER BY over an aggregate sorts the group rows (numbers numerically), ascending or descending
#[kani::proof]
#[kani::unwind(9)]
fn c08_group_order() {
    kani::cover!(true);
    let q = query(Some(false));
    let mut w = world(&q, [1, 2, 2]);      // key 1 -> 1 row, key 2 -> 2 rows; ORDER BY count DESC
    w.frag_grouped_output();
    assert!(w.results_writer.n == 2 && w.results_writer.rows[0] == (2, 2) && w.results_writer.rows[1] == (1, 1), "OBL C08.group.order: descending by COUNT");
    let q2 = query(Some(true));
    let mut w2 = world(&q2, [2, 2, 1]);       // ascending
    w2.frag_grouped_output();
    assert!(w2.results_writer.n == 2 && w2.results_writer.rows[0] == (1, 1) && w2.results_writer.rows[1] == (2, 2), "OBL C08.group.order: ascending by COUNT");
}
#[kani::proof]
#[kani::unwind(9)]
fn canary_grouprows_must_fail() {
    let q = query(None);
    let mut w = world(&q, [1, 2, 1]);
    w.frag_grouped_output();
    assert!(w.results_writer.n == 3, "CANARY must fail");
}
