// C10: an error in any clause, or tokens left over after the last clause, gives Err (status 2) and no Query.
// C06: the parsed LIMIT is the query's limit; an absent limit stays 0 (unlimited) unless no column needs a file (constant query: one row).
#[kani::proof]
#[kani::unwind(14)]
fn c10_clause_sequence() {
    let sc = Script { fields_err: kani::any(), needs_file: [kani::any(), kani::any()], roots1: kani::any(), roots2: kani::any(), where_err: kani::any(),
                      group_err: kani::any(), order_err: kani::any(), limit: if kani::any() { Ok(kani::any()) } else { Err(()) }, format_err: kani::any(), remaining: kani::any() };
    let any_err = sc.fields_err || sc.where_err || sc.group_err || sc.order_err || sc.limit.is_err() || sc.format_err;
    let (lim, nf, r1, r2, rem) = (sc.limit, sc.needs_file, sc.roots1, sc.roots2, sc.remaining);
    kani::cover!(!any_err && !rem);
    kani::cover!(!any_err && rem);
    let mut p = Parser { sc, log: [0; 12], n: 0, roots_parsed: false, where_parsed: false, flags_at_where: (false, false), flags_at_group: (false, false) };
    let r = p.frag_assemble(false);
    match r {
        Err(_) => assert!(any_err || rem, "OBL C10.clause.sequence: a query whose clauses all parse and that leaves no token is accepted"),
        Ok(q) => {
            assert!(!any_err, "OBL C10.clause.sequence: an error in any clause rejects the query");
            assert!(!rem, "OBL C10.clause.sequence: tokens left after the last clause reject the query");
            let n = lim.unwrap();
            assert!(q.limit == if n == 0 && !nf[0] && !nf[1] { 1 } else { n }, "OBL C06.limit.assembled: the query's limit is the parsed LIMIT (0 = unlimited; 1 for a query whose columns need no file)");
            assert!(q.fields.len() == 2 && q.fields[0].id == 1 && q.fields[1].id == 2, "OBL C10.clause.sequence: the select list is what parse_fields returned");
            assert!(q.expr == Some(Expr { id: 9, needs_file: true }) && q.output_format == OutputFormat::Csv && q.ordering_fields.len() == 1 && q.ordering_asc.len() == 1, "OBL C10.clause.sequence: each clause result lands in its own field");
            assert!(q.roots.len() == 1, "OBL C10.clause.sequence: there is always a root");
            let expect = if r1 { Root { path: 1, options: None } } else if r2 { Root { path: 2, options: None } } else { Root { path: 0, options: Some(RootOptions { depth: 7 }) } };
            assert!(q.roots[0] == expect, "OBL C10.clause.sequence: roots in front of WHERE, else after the other clauses, else the default root with the stand-alone options");
            assert!(p.flags_at_where == (true, false) && p.flags_at_group == (true, true), "OBL C10.clause.sequence: roots_parsed / where_parsed are set before the clauses that read them");
            assert!(p.log[0] == 1 && p.log[1] == 2 && p.log[2] == 3 && p.log[3] == 4 && p.log[4] == 5 && p.log[5] == 6 && p.log[6] == 7 && p.log[7] == 8, "OBL C10.clause.sequence: clause order fields, roots, options, where, group by, order by, limit, into");
        }
    }
}
#[kani::proof]
#[kani::unwind(14)]
fn canary_parsetop_must_fail() {
    let sc = Script { fields_err: false, needs_file: [true, true], roots1: true, roots2: false, where_err: false, group_err: false, order_err: false, limit: Ok(5), format_err: false, remaining: true };
    let mut p = Parser { sc, log: [0; 12], n: 0, roots_parsed: false, where_parsed: false, flags_at_where: (false, false), flags_at_group: (false, false) };
    assert!(p.frag_assemble(false).is_ok(), "CANARY must fail");
}
