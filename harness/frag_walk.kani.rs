use self::world::*;
fn walk(min: u32, max: u32, mode: TraversalMode, limit: u32, buffered: bool) -> Searcher { walk_a(min, max, mode, limit, buffered, false, false) }
fn walk_a(min: u32, max: u32, mode: TraversalMode, limit: u32, buffered: bool, archives: bool, follow: bool) -> Searcher {
    walk_f(min, max, mode, limit, buffered, archives, follow, true)
}
fn walk_f(min: u32, max: u32, mode: TraversalMode, limit: u32, buffered: bool, archives: bool, follow: bool, reset: bool) -> Searcher {
    if reset { reset_faults(); }
    let mut s = Searcher { query: Query { limit }, found: 0, buffered, current_follow_symlinks: follow, visited_dirs: Set { seen: [false; N] }, visited_inodes: InoSet { seen: [false; N] },
                           dir_queue: Queue { items: [(0, false); N], head: 0, tail: 0 }, error_count: 0, hgignore_filters: Filters, dockerignore_filters: Filters, log: [0; 12], n: 0 };
    let r = s.visit_dir(&Path(0, false), min, max, 0, archives, false, None, false, false, mode, true);
    assert!(r.is_ok(), "OBL C01.walk: no error");
    s
}
fn count(s: &Searcher, code: u8) -> usize { let mut c = 0; let mut i = 0; while i < s.n { if s.log[i] == code { c += 1; } i += 1; } c }
fn in_window(node: usize, min: u32, max: u32) -> bool { (min == 0 || LEVEL[node] >= min) && (max == 0 || LEVEL[node] <= max) }
// C01, the whole-traversal statement: for every depth window an entry is reported exactly when its level (1 = directly inside the root) lies in the
// window, exactly once, and nothing else is reported (symlinks are listed like any entry and - without the `symlinks` option - not followed)
fn window_check(min: u32, max: u32, mode: TraversalMode) {
    let s = walk(min, max, mode, 0, false);
    let mut node = 1;
    while node < N {
        let expect = if node < INSIDE && in_window(node, min, max) { 1 } else { 0 };
        assert!(count(&s, node as u8) == expect, "OBL C01.walk.window: an entry is reported exactly once iff it lies under the root and its level lies in [mindepth, maxdepth]");
        node += 1;
    }
    assert!(s.error_count == 0, "OBL C01.walk.window: no spurious error");
}
#[kani::proof]
#[kani::unwind(9)]
fn c01_walk_window_bfs() {
    let min: u32 = kani::any(); let max: u32 = kani::any();
    kani::assume(min <= 3 && max <= 3);
    kani::cover!(min == 2 && max == 2);
    kani::cover!(min == 3 && max == 1);
    window_check(min, max, TraversalMode::Bfs);
}
#[kani::proof]
#[kani::unwind(9)]
fn c01_walk_window_dfs() {
    let min: u32 = kani::any(); let max: u32 = kani::any();
    kani::assume(min <= 3 && max <= 3);
    kani::cover!(min == 2 && max == 2);
    kani::cover!(min == 0 && max == 0);
    window_check(min, max, TraversalMode::Dfs);
}
// traversal order: dfs lists a directory's content right after the directory, bfs lists level by level
#[kani::proof]
#[kani::unwind(9)]
fn c01_walk_order() {
    kani::cover!(true);
    let d = walk(0, 0, TraversalMode::Dfs, 0, false);
    assert!(d.n == 5 && d.log[..5] == [1, 3, 4, 5, 2], "OBL C01.walk.order: depth-first order");
    let b = walk(0, 0, TraversalMode::Bfs, 0, false);
    assert!(b.n == 5 && b.log[..5] == [1, 2, 3, 4, 5], "OBL C01.walk.order: breadth-first order");
}
// C06: without ORDER BY / aggregates `limit L` stops the traversal after exactly min(L, M) rows, in both modes; a buffered query is never cut short
fn limit_check(limit: u32, dfs: bool, buffered: bool) {
    let s = walk(0, 0, if dfs { TraversalMode::Dfs } else { TraversalMode::Bfs }, limit, buffered);
    let expect = if buffered || limit == 0 || limit > 5 { 5 } else { limit as usize };
    assert!(s.n == expect, "OBL C06.walk.limit: exactly min(L, M) entries are handed to check_file when streaming; all of them when the output is buffered or unlimited");
    let full: [u8; 5] = if dfs { [1, 3, 4, 5, 2] } else { [1, 2, 3, 4, 5] };
    let mut i = 0;
    while i < s.n { assert!(s.log[i] == full[i], "OBL C06.walk.limit: a limited traversal is a prefix of the unlimited one"); i += 1; }
}
#[kani::proof]
#[kani::unwind(9)]
fn c06_walk_limit_bfs() {
    let limit: u32 = kani::any();
    kani::assume(limit <= 6);
    kani::cover!(limit == 2);
    limit_check(limit, false, false);
}
#[kani::proof]
#[kani::unwind(9)]
fn c06_walk_limit_dfs() {
    let limit: u32 = kani::any();
    kani::assume(limit <= 6);
    kani::cover!(limit == 3);
    limit_check(limit, true, false);
}
#[kani::proof]
#[kani::unwind(9)]
fn c06_walk_limit_buffered() {
    let limit: u32 = kani::any();
    kani::assume(limit <= 6);
    kani::cover!(limit == 1);
    limit_check(limit, false, true);
}
// with `archives` the members of a zip file are rows of their own (right after the archive) and count towards the limit: a limit reached in the middle
// of an archive stops there
#[kani::proof]
#[kani::unwind(9)]
fn c06_walk_limit_archive() {
    let limit: u32 = kani::any();
    kani::assume(limit <= 8);
    kani::cover!(limit == 3);
    kani::cover!(limit == 0);
    let s = walk_a(0, 0, TraversalMode::Bfs, limit, false, true, false);
    let full: [u8; 7] = [1, 2, 12, 22, 3, 4, 5];
    let expect = if limit == 0 || limit > 7 { 7 } else { limit as usize };
    assert!(s.n == expect, "OBL C06.walk.limit.archive: exactly min(L, M) rows, archive members included");
    let mut i = 0;
    while i < s.n { assert!(s.log[i] == full[i], "OBL C06.walk.limit.archive: a limited traversal is a prefix of the unlimited one"); i += 1; }
}
// the same with a WHERE filter that rejects one entry or member: LIMIT counts the rows that MATCH, not the entries examined - the limited
// traversal is a prefix of the unlimited filtered one, also when the rejected one is a member of the archive
#[kani::proof]
#[kani::unwind(9)]
fn c06_walk_limit_filter() {
    let limit: u32 = kani::any();
    kani::assume(limit <= 7);
    let full: [u8; 7] = [1, 2, 12, 22, 3, 4, 5];
    let k: usize = kani::any();
    kani::assume(k < 7);
    kani::cover!(limit == 1 && k == 2, "limit 1 with the first member rejected");
    reset_faults();
    unsafe { REJECT = full[k]; }
    let s = walk_f(0, 0, TraversalMode::Bfs, limit, false, true, false, false);
    let expect = if limit == 0 || limit > 6 { 6 } else { limit as usize };
    assert!(s.n == expect, "OBL C06.walk.limit.filter: exactly min(L, number of MATCHING rows) rows");
    let mut i = 0;
    while i < s.n { let j = if i < k { i } else { i + 1 }; assert!(s.log[i] == full[j], "OBL C06.walk.limit.filter: a limited traversal is a prefix of the unlimited filtered one"); i += 1; }
}
#[kani::proof]
#[kani::unwind(9)]
fn canary_walk_must_fail() {
    let s = walk(0, 1, TraversalMode::Bfs, 0, false);
    assert!(s.n == 5, "CANARY must fail");
}
// ---- C19: archive members ----
// with `archives` every member of a readable zip archive in the window is reported exactly once, right after the archive; the ordinary rows are those
// of the same query without the option
fn members_check(mode: TraversalMode) {
    let with = walk_a(0, 0, mode, 0, false, true, false);
    let without = walk(0, 0, mode, 0, false);
    assert!(count(&with, 12) == 1 && count(&with, 22) == 1 && with.n == without.n + 2, "OBL C19.members: each member exactly once, nothing else added");
    // the ordinary rows, in order, are those of the query without `archives`
    let mut i = 0; let mut j = 0;
    while i < with.n { let c = with.log[i]; if c < 10 { assert!(j < without.n && without.log[j] == c, "OBL C19.members: ordinary rows unchanged"); j += 1; } i += 1; }
    assert!(j == without.n, "OBL C19.members: no ordinary row lost");
    // members follow their archive
    let mut k = 0; while k + 2 < with.n { if with.log[k] == 2 { assert!(with.log[k + 1] == 12 && with.log[k + 2] == 22, "OBL C19.members: members are listed right after the archive, in archive order"); } k += 1; }
    assert!(with.error_count == 0, "OBL C19.members: no error");
}
#[kani::proof]
#[kani::unwind(9)]
fn c19_members_bfs() { kani::cover!(true); members_check(TraversalMode::Bfs); }
#[kani::proof]
#[kani::unwind(9)]
fn c19_members_dfs() { kani::cover!(true); members_check(TraversalMode::Dfs); }
// members obey the depth window of their archive: an archive outside the window contributes nothing
#[kani::proof]
#[kani::unwind(9)]
fn c19_members_window() {
    kani::cover!(true);
    let s = walk_a(2, 0, TraversalMode::Bfs, 0, false, true, false);      // mindepth 2: the archive (level 1) is outside
    assert!(count(&s, 2) == 0 && count(&s, 12) == 0 && count(&s, 22) == 0 && s.n == 3, "OBL C19.members.window: an archive outside the window contributes no row");
}
// a corrupt archive, or an unreadable member, is skipped without aborting the search or losing other rows
#[kani::proof]
#[kani::unwind(9)]
fn c19_corrupt() {
    kani::cover!(true);
    reset_faults(); unsafe { ZIP_CORRUPT = true; }
    let s = walk_f(0, 0, TraversalMode::Bfs, 0, false, true, false, false);
    assert!(s.n == 5 && s.log[..5] == [1, 2, 3, 4, 5], "OBL C19.corrupt: a corrupt archive is listed as a file, has no members, and every other row is there");
    reset_faults(); unsafe { ZIP_BAD_MEMBER = 0; }
    let s2 = walk_f(0, 0, TraversalMode::Bfs, 0, false, true, false, false);
    assert!(s2.n == 6 && s2.log[..6] == [1, 2, 22, 3, 4, 5], "OBL C19.corrupt: an unreadable member is skipped, the next one and all other rows are there");
}
// ---- C17: fault isolation in the traversal ----
// a directory that cannot be listed costs its own content only: everything outside it is still reported, one diagnostic names it, one error is counted
fn unlistable_check(mode: TraversalMode) {
    reset_faults(); unsafe { UNLISTABLE = 4; }
    let s = walk_f(0, 0, mode, 0, false, false, false, false);
    assert!(count(&s, 1) == 1 && count(&s, 2) == 1 && count(&s, 3) == 1 && count(&s, 4) == 1 && count(&s, 5) == 0 && s.n == 4, "OBL C17.unlistable: exactly the rows outside the unlistable directory (which itself is still a row)");
    assert!(s.error_count == 1 && unsafe { DIAG_COUNT == 1 && DIAG_LAST == 4 }, "OBL C17.unlistable: one error counted (exit status 1), one diagnostic naming the failing path");
    reset_faults();
    let ok = walk_f(0, 0, TraversalMode::Bfs, 0, false, false, false, false);
    assert!(ok.error_count == 0 && unsafe { DIAG_COUNT == 0 } && ok.n == 5, "OBL C17.unlistable: nothing fails, no error, no diagnostic");
}
#[kani::proof]
#[kani::unwind(9)]
fn c17_unlistable_bfs() { kani::cover!(true); unlistable_check(TraversalMode::Bfs); }
#[kani::proof]
#[kani::unwind(9)]
fn c17_unlistable_dfs() { kani::cover!(true); unlistable_check(TraversalMode::Dfs); }
// the search ROOT itself cannot be listed: list_search_results discards what the root call returns (`let _result = self.visit_dir(..)`), so by the time
// that call comes back the failure must have been counted and named - and it must come back Ok (walk_f asserts that), in either mode
#[kani::proof]
#[kani::unwind(9)]
fn c17_unlistable_root() {
    kani::cover!(true);
    reset_faults(); unsafe { UNLISTABLE = 0; }
    let s = walk_f(0, 0, TraversalMode::Bfs, 0, false, false, false, false);
    assert!(s.n == 0 && s.error_count == 1 && unsafe { DIAG_COUNT == 1 && DIAG_LAST == 0 }, "OBL C17.unlistable.root: an unlistable root gives no row, one counted error (exit status 1) and one diagnostic naming the root");
    reset_faults(); unsafe { UNLISTABLE = 0; }
    let d = walk_f(0, 0, TraversalMode::Dfs, 0, false, false, false, false);
    assert!(d.n == 0 && d.error_count == 1 && unsafe { DIAG_COUNT == 1 && DIAG_LAST == 0 }, "OBL C17.unlistable.root: the same depth-first");
}
// an unreadable directory entry, or an entry whose type cannot be determined, costs that entry only
#[kani::proof]
#[kani::unwind(9)]
fn c17_bad_entry() {
    kani::cover!(true);
    reset_faults(); unsafe { BAD_ENTRY_IN = 1; }
    let s = walk_f(0, 0, TraversalMode::Bfs, 0, false, false, false, false);
    assert!(s.n == 5 && s.log[..5] == [1, 2, 3, 4, 5] && s.error_count == 1 && unsafe { DIAG_LAST == 1 }, "OBL C17.bad_entry: an unreadable entry is reported once against its directory, every readable entry is still a row");
    reset_faults(); unsafe { NO_FILETYPE = 4; }
    let s2 = walk_f(0, 0, TraversalMode::Bfs, 0, false, false, false, false);
    assert!(s2.n == 4 && s2.log[..4] == [1, 2, 3, 4] && s2.error_count == 1 && unsafe { DIAG_LAST == 4 }, "OBL C17.bad_entry: an entry without a type is still a row; only what is below it is lost, with one diagnostic");
}
// a closed pipe stops the search without a crash: no further row is produced and no error is invented
#[kani::proof]
#[kani::unwind(9)]
fn c17_closed_pipe_bfs() {
    let k: u32 = kani::any();
    kani::assume(k <= 5);
    kani::cover!(k == 2);
    reset_faults(); unsafe { PIPE_CLOSED_AFTER = k; }
    let s = walk_f(0, 0, TraversalMode::Bfs, 0, false, false, false, false);
    assert!(s.n == k as usize && s.error_count == 0, "OBL C17.closed_pipe: exactly the rows written before the pipe closed, no error counted, no panic");
}
#[kani::proof]
#[kani::unwind(9)]
fn c17_closed_pipe_dfs() {
    let k: u32 = kani::any();
    kani::assume(k <= 5);
    kani::cover!(k == 3);
    reset_faults(); unsafe { PIPE_CLOSED_AFTER = k; }
    let s = walk_f(0, 0, TraversalMode::Dfs, 0, false, false, false, false);
    assert!(s.n == k as usize && s.error_count == 0, "OBL C17.closed_pipe: exactly the rows written before the pipe closed, no error counted, no panic");
}
