fn reset(subject: &'static str, expect: &'static str, verdict: bool) -> Searcher {
    unsafe { VERDICT = verdict; MATCH_CALLS = 0; MATCHED_SUBJECT_OK = true; SUBJECT = subject; COMPILED = 0; LAST_COMPILED_OK = true;
             EXPECT_PATTERN = expect; COMPILE_FAILS = false; ERROR_EXITS = 0; }
    Searcher { regex_cache: Cache { key: None, rx: None, inserts: 0 } }
}
// IF the engine is consulted, it is with the right translation and on the subject (a path that answers correctly without
// the engine is not flagged)
fn engine_use_ok() -> bool { unsafe { MATCHED_SUBJECT_OK && LAST_COMPILED_OK } }
fn engine_untouched() -> bool { unsafe { MATCH_CALLS == 0 && COMPILED == 0 } }
// one witness: `truth` is what the property demands for (pattern, subject) under the positive operator
fn wit(pos: Op, neg: Op, pat: &'static str, subj: &'static str, translation: &'static str, truth: bool) -> bool {
    let mut w = reset(subj, translation, truth);
    let a = w.frag_string_arm(&SV(subj), &SV(pat), &pos) == truth;
    let ok1 = engine_use_ok();
    let mut w = reset(subj, translation, truth);
    let b = w.frag_string_arm(&SV(subj), &SV(pat), &neg) == !truth;
    a && b && ok1 && engine_use_ok()
}

// `=` / `!=` with a wildcard: whole string, `*` any run (also empty), `?` exactly one character
#[kani::proof]
#[kani::unwind(16)]
fn c12_arm_glob() {
    kani::cover!(true);
    assert!(wit(Op::Eq, Op::Ne, "a*.txt", "ab.txt", "G:a*.txt", true), "OBL C12.arm.glob: a*.txt matches ab.txt");
    assert!(wit(Op::Eq, Op::Ne, "a*.txt", "ab.txd", "G:a*.txt", false), "OBL C12.arm.glob: a*.txt does not match ab.txd");
    assert!(wit(Op::Eq, Op::Ne, "a?.txt", "ab.txt", "G:a?.txt", true), "OBL C12.arm.glob: a?.txt matches ab.txt");
    assert!(wit(Op::Eq, Op::Ne, "a?.txt", "a.txt", "G:a?.txt", false), "OBL C12.arm.glob: ? stands for exactly one character");
}
#[kani::proof]
#[kani::unwind(16)]
fn c12_arm_glob_edge() {
    kani::cover!(true);
    assert!(wit(Op::Eq, Op::Ne, "ab*ba", "aba", "G:ab*ba", false), "OBL C12.arm.glob: prefix and suffix may not overlap (ab*ba vs aba)");
    assert!(wit(Op::Eq, Op::Ne, "ab*ba", "abba", "G:ab*ba", true), "OBL C12.arm.glob: * may stand for the empty run (ab*ba vs abba)");
    assert!(wit(Op::Eq, Op::Ne, "*.TXT", "ab.txt", "G:*.TXT", true), "OBL C12.arm.glob: wildcard patterns ignore letter case");
    assert!(wit(Op::Eq, Op::Ne, "*b*", "abc", "G:*b*", true), "OBL C12.arm.glob: two stars");
}
#[kani::proof]
#[kani::unwind(16)]
fn c12_arm_plain() {
    kani::cover!(true);
    let mut w = reset("ab.txt", "", true);
    assert!(w.frag_string_arm(&SV("ab.txt"), &SV("ab.txt"), &Op::Eq), "OBL C12.arm.plain: = without wildcard is text equality");
    assert!(!w.frag_string_arm(&SV("ab.txt"), &SV("ab.tx"), &Op::Eq), "OBL C12.arm.plain: = without wildcard is text equality (prefix is not equal)");
    assert!(!w.frag_string_arm(&SV("ab.txt"), &SV("ab.txt"), &Op::Ne), "OBL C12.arm.plain: != is the complement");
    assert!(w.frag_string_arm(&SV("ab.txt"), &SV("a..txt"), &Op::Ne), "OBL C12.arm.plain: a regex metacharacter in a plain pattern matches only itself");
    assert!(engine_untouched(), "OBL C12.arm.plain: no regex is compiled for a pattern without wildcard");
}
// `===` / `!==`: the literal text, no wildcard at all
#[kani::proof]
#[kani::unwind(16)]
fn c12_arm_strict() {
    kani::cover!(true);
    let mut w = reset("ab.txt", "", true);
    assert!(!w.frag_string_arm(&SV("ab.txt"), &SV("a*.txt"), &Op::Eeq), "OBL C12.arm.strict: === does not expand *");
    assert!(w.frag_string_arm(&SV("a*.txt"), &SV("a*.txt"), &Op::Eeq), "OBL C12.arm.strict: === compares the text");
    assert!(w.frag_string_arm(&SV("ab.txt"), &SV("a?.txt"), &Op::Ene), "OBL C12.arm.strict: !== is the complement");
    assert!(!w.frag_string_arm(&SV("a?.txt"), &SV("a?.txt"), &Op::Ene), "OBL C12.arm.strict: !== is the complement");
    assert!(engine_use_ok(), "OBL C12.arm.strict: no wildcard translation is compiled");
}
// `=~` / `!=~`: the pattern text itself is the regular expression (search); like / notlike: its LIKE translation
#[kani::proof]
#[kani::unwind(16)]
fn c12_arm_rx_like() {
    kani::cover!(true);
    assert!(wit(Op::Rx, Op::NotRx, "b\\.t", "ab.txt", "b\\.t", true), "OBL C12.arm.rx: =~ searches with the pattern as a regex");
    assert!(wit(Op::Rx, Op::NotRx, "^b", "ab.txt", "^b", false), "OBL C12.arm.rx: =~ / !=~ are complements");
    assert!(wit(Op::Like, Op::NotLike, "a%.t_t", "ab.txt", "L:a%.t_t", true), "OBL C12.arm.like: % any run, _ one character");
    assert!(wit(Op::Like, Op::NotLike, "a*", "ab.txt", "L:a*", false), "OBL C12.arm.like: * is not a LIKE wildcard");
}
// second evaluation with the same pattern: if a regex is cached it is the one compiled from this pattern under this
// operator kind; the same text under another kind compiles its own
#[kani::proof]
#[kani::unwind(16)]
fn c12_arm_cached() {
    kani::cover!(true);
    let mut w = reset("ab.txt", "G:a*", true);
    let first = w.frag_string_arm(&SV("ab.txt"), &SV("a*"), &Op::Eq);
    let second = w.frag_string_arm(&SV("ab.txt"), &SV("a*"), &Op::Eq);
    assert!(first && second && engine_use_ok(), "OBL C12.arm.cached: the cached regex decides the same way");
    // LIKE 'a*' does not match ab.txt; a glob regex picked up from the cache would say it does
    unsafe { EXPECT_PATTERN = "L:a*"; VERDICT = false; }
    let third = w.frag_string_arm(&SV("ab.txt"), &SV("a*"), &Op::Like);
    assert!(!third && engine_use_ok(), "OBL C12.arm.cached: LIKE with the same text uses its own regex");
}
#[kani::proof]
#[kani::unwind(16)]
fn canary_strarm_must_fail() {
    let mut w = reset("ab.txt", "", true);
    assert!(w.frag_string_arm(&SV("ab.txt"), &SV("ab.tx"), &Op::Eq), "CANARY must fail");
}
