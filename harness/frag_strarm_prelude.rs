// Shim world for the verbatim String arm of Searcher::conforms (Engine F; C12 / C02 / C03).
// The regular-expression engine is NOT entered: a shim Regex records the text it was compiled from and answers
// is_match with the verdict the harness states for the current witness (the answer a correct engine gives for the
// correct translation of that pattern); compiling any other text, or matching another subject, is flagged.
// Pattern conversion functions tag their input; every other helper (is_glob, ..) is the real crate::util item.
use crate::operators::Op;
#[allow(unused_imports)]
use crate::util::*;
pub struct SV(pub &'static str);
impl SV { pub fn to_string(&self) -> String { String::from(self.0) } }
#[derive(Clone)]
pub struct Regex { pub src: String }
pub static mut VERDICT: bool = false;          // what the engine answers for the next is_match call
pub static mut MATCH_CALLS: u32 = 0;
pub static mut MATCHED_SUBJECT_OK: bool = true; // every is_match call was on the subject text
pub static mut SUBJECT: &str = "";
pub static mut COMPILED: u32 = 0;
pub static mut LAST_COMPILED_OK: bool = true;  // every compiled pattern equals EXPECT_PATTERN
pub static mut EXPECT_PATTERN: &str = "";
pub static mut COMPILE_FAILS: bool = false;
impl Regex {
    pub fn new(p: &str) -> Result<Regex, ()> {
        unsafe {
            COMPILED += 1;
            if p != EXPECT_PATTERN { LAST_COMPILED_OK = false; }
            if COMPILE_FAILS { return Err(()); }
        }
        Ok(Regex { src: String::from(p) })
    }
    pub fn is_match(&self, s: &str) -> bool {
        unsafe {
            MATCH_CALLS += 1;
            if s != SUBJECT { MATCHED_SUBJECT_OK = false; }
            if self.src.as_str() != EXPECT_PATTERN { LAST_COMPILED_OK = false; }
            VERDICT
        }
    }
}
pub fn convert_glob_to_pattern(s: &str) -> String { String::from("G:") + s }
pub fn convert_like_to_pattern(s: &str) -> String { String::from("L:") + s }
pub fn error_exit(_a: &str, _b: &str) -> ! { unsafe { ERROR_EXITS += 1; } kani::assume(false); loop {} }
pub static mut ERROR_EXITS: u32 = 0;
// cache: at most one entry
pub struct Cache { pub key: Option<String>, pub rx: Option<Regex>, pub inserts: u32 }
impl Cache {
    pub fn get(&self, k: &String) -> Option<&Regex> { match &self.key { Some(kk) if kk == k => self.rx.as_ref(), _ => None } }
    pub fn insert(&mut self, k: String, r: Regex) { self.key = Some(k); self.rx = Some(r); self.inserts += 1; }
}
pub struct Searcher { pub regex_cache: Cache }
