// Shim world for Parser::parse_roots (Engine F; C11 / C01). Token texts are one-byte ids:
//   0 = ""   1 = "group"   2 = "GROUP" / "Group" (lower-cases to 1)   10..19 = paths   20 = a path starting with "~"
//   30 = "rx" / "RX" / "regexp" (operator word)   40..49 = root option words   50.. = other words
#[derive(Clone, Copy, PartialEq, Debug)] pub struct String(pub u8);
impl String {
    pub fn from(s: &str) -> String { if s.is_empty() { String(0) } else { String(99) } }
    pub fn to_string(&self) -> String { *self }
    pub fn to_lowercase(&self) -> String { if self.0 == 2 { String(1) } else { *self } }
    pub fn is_empty(&self) -> bool { self.0 == 0 }
    pub fn starts_with(&self, p: &str) -> bool { p == "~" && self.0 == 20 }
}
impl PartialEq<str> for String { fn eq(&self, o: &str) -> bool { (o == "group" && self.0 == 1) || (o.is_empty() && self.0 == 0) } }
impl PartialEq<&str> for String { fn eq(&self, o: &&str) -> bool { (*o == "group" && self.0 == 1) || (o.is_empty() && self.0 == 0) } }
#[derive(Clone, Copy, PartialEq, Debug)]
pub enum Lexem { RawString(String), Comma, From, Where, Operator(String), String(String), Open, Close, By, Order, Limit, Into }
#[derive(Clone, Copy, PartialEq, Debug)] pub struct RootOptions { pub tag: u8 }
impl RootOptions { pub fn new() -> RootOptions { RootOptions { tag: 0 } } }
#[derive(Clone, Copy, PartialEq, Debug)] pub struct Root { pub path: String, pub options: RootOptions }
impl Root { pub fn new(path: String, options: RootOptions) -> Root { Root { path, options } } }
// home-directory expansion is not modelled: no user directories are known
pub struct UserDirs;
impl UserDirs { pub fn new() -> Option<UserDirs> { None } pub fn home_dir(&self) -> PathBuf { PathBuf } }
pub struct PathBuf;
impl PathBuf {
    pub fn from(_s: String) -> PathBuf { PathBuf }
    pub fn components(&self) -> core::iter::Empty<()> { core::iter::empty() }
    pub fn to_path_buf(&self) -> PathBuf { PathBuf }
    pub fn join(&self, _p: PathBuf) -> PathBuf { PathBuf }
    pub fn to_string_lossy(&self) -> String { String(99) }
}
impl core::iter::FromIterator<()> for PathBuf { fn from_iter<I: IntoIterator<Item = ()>>(_i: I) -> PathBuf { PathBuf } }
pub struct Parser { pub lexems: Vec<Lexem>, pub index: usize }
impl Parser {
    pub fn next_lexem(&mut self) -> Option<Lexem> { let l = self.lexems.get(self.index).copied(); self.index += 1; l }
    pub fn drop_lexem(&mut self) { self.index -= 1; }
    pub fn is_regexp_root_option(s: &String) -> bool { s.0 == 30 }
    // stands for parse_root_options (under contract in Engine V): consumes the run of option tokens under the cursor; the options it
    // returns carry the id of the last option word read; None (nothing consumed) when there is no option
    pub fn parse_root_options(&mut self) -> Option<RootOptions> {
        let mut last = 0u8;
        loop {
            match self.lexems.get(self.index) {
                Some(Lexem::RawString(s)) | Some(Lexem::String(s)) if s.0 >= 40 && s.0 < 50 => { last = s.0; self.index += 1; }
                Some(Lexem::Operator(s)) if s.0 == 30 => { last = 30; self.index += 1; }
                _ => break,
            }
        }
        if last == 0 { None } else { Some(RootOptions { tag: last }) }
    }
}
