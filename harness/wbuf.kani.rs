// Appended to the scratch copy of src/util/wbuf.rs. Engine K: the buffer collects exactly the bytes it is given, however they are cut (C09).
#[cfg(kani)]
mod verif_kani {
    use super::*;
    use std::io::Write;
    #[kani::proof]
    #[kani::unwind(8)]
    fn c09_wbuf_chunks() {
        let a: [u8; 2] = kani::any(); let b: [u8; 3] = kani::any();
        let la: usize = kani::any(); let lb: usize = kani::any();
        kani::assume(la <= 2 && lb <= 3);
        kani::cover!(la == 1 && lb == 2 && a[0] >= 0x80);
        let mut w = WritableBuffer::new();
        let r1 = w.write(&a[..la]);
        let r2 = w.write(&b[..lb]);
        assert!(matches!(r1, Ok(n) if n == la) && matches!(r2, Ok(n) if n == lb), "OBL C09.wbuf.chunks: every chunk is accepted whole, valid UTF-8 on its own or not");
        assert!(w.buf.len() == la + lb, "OBL C09.wbuf.chunks: nothing lost, nothing added");
        let mut i = 0;
        while i < la + lb {
            let want = if i < la { a[i] } else { b[i - la] };
            assert!(w.buf[i] == want, "OBL C09.wbuf.chunks: the bytes are kept in order");
            i += 1;
        }
    }
    #[kani::proof]
    #[kani::unwind(20)]
    fn c09_wbuf_split_char() {
        kani::cover!(true);
        let mut w = WritableBuffer::new();
        let _ = w.write(&[b'a', 0xE6]);
        let _ = w.write(&[0x97, 0xA5, b'b']);
        let s: String = w.into();
        assert!(s == "a\u{65e5}b", "OBL C09.wbuf.split: a character cut in two by the writer comes out whole");
    }
    #[kani::proof]
    #[kani::unwind(5)]
    fn canary_wbuf_must_fail() {
        let mut w = WritableBuffer::new();
        let _ = w.write(&[b'a']);
        assert!(w.buf.len() == 0, "CANARY must fail");
    }
}
