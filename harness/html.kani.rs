// Appended to the scratch copy of src/output/html.rs. Engine K.
#[cfg(kani)]
pub(crate) mod verif_kani {
    use super::*;

    /// decode `cell` (HTML text content) and compare with `value`; any raw & < > in the cell is an error.
    /// quotes may appear escaped (&quot; / &#39;) or raw.
    fn cell_is_escaped_value(cell: &[u8], value: &[u8]) -> bool {
        let mut i = 0; let mut j = 0;
        while i < cell.len() {
            let c = cell[i];
            if c == b'<' || c == b'>' { return false; }
            let rest = &cell[i..];
            let (dec, adv) = if c == b'&' {
                if rest.len() >= 5 && rest[1] == b'a' && rest[2] == b'm' && rest[3] == b'p' && rest[4] == b';' { (b'&', 5) }
                else if rest.len() >= 4 && rest[1] == b'l' && rest[2] == b't' && rest[3] == b';' { (b'<', 4) }
                else if rest.len() >= 4 && rest[1] == b'g' && rest[2] == b't' && rest[3] == b';' { (b'>', 4) }
                else if rest.len() >= 6 && rest[1] == b'q' && rest[2] == b'u' && rest[3] == b'o' && rest[4] == b't' && rest[5] == b';' { (b'"', 6) }
                else if rest.len() >= 5 && rest[1] == b'#' && rest[2] == b'3' && rest[3] == b'9' && rest[4] == b';' { (b'\'', 5) }
                else { return false; }
            } else { (c, 1) };
            if j >= value.len() || value[j] != dec { return false; }
            i += adv; j += 1;
        }
        j == value.len()
    }

/*GENERATED_CELL*/
    // complete over every single ASCII character; multi-character values by concrete witnesses (two symbolic
    // characters plus the decoder did not finish in 600 s)
    #[kani::proof]
    #[kani::unwind(4)]
    fn c09_html_escape_char() {
        let arr: [u8; 1] = [kani::any()];
        kani::assume(arr[0] >= 1 && arr[0] < 128);
        let s: &str = unsafe { std::str::from_utf8_unchecked(&arr[..1]) };
        let e = escape_html(s);
        kani::cover!(arr[0] == b'&');
        assert!(cell_is_escaped_value(e.as_bytes(), s.as_bytes()), "OBL C09.html.escape: escaped character contains no raw & < > and decodes to itself");
    }
    #[kani::proof]
    #[kani::unwind(24)]
    fn c09_html_escape_witnesses() {
        kani::cover!(true);
        assert!(escape_html("a<b") == "a&lt;b", "OBL C09.html.escape: witness a<b");
        assert!(escape_html("R&D>") == "R&amp;D&gt;", "OBL C09.html.escape: witness R&D>");
        assert!(escape_html("&amp;") == "&amp;amp;", "OBL C09.html.escape: witness &amp; (no double decoding)");
        assert!(escape_html("") == "", "OBL C09.html.escape: empty");
    }
    #[kani::proof]
    #[kani::unwind(24)]
    fn c09_html_cell() {
        kani::cover!(true);
        assert!(frag_html_cell("col", "a<b", false) == "<td>a&lt;b</td>", "OBL C09.html.cell: <td> + escaped value + </td> (witness a<b)");
        assert!(frag_html_cell("col", "R&D>", true) == "<td>R&amp;D&gt;</td>", "OBL C09.html.cell: witness R&D>");
        assert!(frag_html_cell("col", "", true) == "<td></td>", "OBL C09.html.cell: empty value");
    }
    #[kani::proof]
    fn c09_html_frame() {
        let mut f = HtmlFormatter;
        kani::cover!(true);
        assert!(f.header().as_deref() == Some("<html><body><table>"), "OBL C09.html.frame header");
        assert!(f.row_started().as_deref() == Some("<tr>"), "OBL C09.html.frame row start");
        assert!(f.row_ended().as_deref() == Some("</tr>"), "OBL C09.html.frame row end");
        assert!(f.footer().as_deref() == Some("</table></body></html>"), "OBL C09.html.frame footer");
        assert!(f.row_separator().is_none(), "OBL C09.html.frame no separator between rows");
    }
    #[kani::proof]
    #[kani::unwind(5)]
    fn canary_html_must_fail() {
        let e = escape_html("<");
        assert!(e.as_bytes()[0] == b'<', "CANARY must fail");
    }
}
