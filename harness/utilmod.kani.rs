// Appended to the scratch copy of src/util/mod.rs. Engine K: the REAL parse_filesize, whole function, on
// concrete witness literals (bounded; survives a rewrite of the function body).
#[cfg(kani)]
pub(crate) mod verif_kani {
    use super::*;
    macro_rules! lit {
        ($h:ident, $($s:expr => $v:expr),+) => {
            #[kani::proof]
            #[kani::unwind(24)]
            fn $h() {
                kani::cover!(true);
                $( assert!(parse_filesize($s) == $v, concat!("OBL C14.whole: literal ", $s)); )+
            }
        };
    }
    lit!(c14_whole_k, "3k" => Some(3 * 1024), "3K" => Some(3 * 1024), "3kib" => Some(3 * 1024), "3KiB" => Some(3 * 1024), "3kb" => Some(3000), "3KB" => Some(3000));
    lit!(c14_whole_m, "2m" => Some(2 * 1024 * 1024), "2mib" => Some(2 * 1024 * 1024), "2mb" => Some(2_000_000), "2MB" => Some(2_000_000));
    lit!(c14_whole_g, "2g" => Some(2 * 1024 * 1024 * 1024), "2gib" => Some(2 * 1024 * 1024 * 1024), "2gb" => Some(2_000_000_000), "2Gb" => Some(2_000_000_000));
    lit!(c14_whole_t, "2t" => Some(2 * 1024 * 1024 * 1024 * 1024), "2tib" => Some(2 * 1024 * 1024 * 1024 * 1024), "2tb" => Some(2_000_000_000_000), "2TB" => Some(2_000_000_000_000));
    lit!(c14_whole_b, "12b" => Some(12), "12B" => Some(12), "123" => Some(123), "0" => Some(0));
    lit!(c14_whole_frac, "1.5k" => Some(1536), "1.0625K" => Some(1088), "0.5kb" => Some(500), "2.03125mib" => Some(2129920), "1.25gb" => Some(1_250_000_000));
    lit!(c14_whole_space, "3 kb" => Some(3000), "1.5 m" => Some(1572864));
    lit!(c14_whole_bad, "k" => None, "1x" => None, "abc" => None, "" => None);
    #[kani::proof]
    #[kani::unwind(24)]
    fn canary_utilmod_must_fail() { assert!(parse_filesize("1k") == Some(1000), "CANARY must fail"); }
}
