#[kani::proof]
fn c01_depth_formula() {
    let canonical: u32 = kani::any(); let root: u32 = kani::any();
    kani::assume(root == 0 || (canonical >= root && canonical - root < u32::MAX));
    let (base, depth) = frag_depth(canonical, root);
    kani::cover!(true);
    if root == 0 {
        assert!(base == canonical && depth == 1, "OBL C01.depth.formula: entries directly inside the root are level 1");
    } else {
        assert!(base == root && depth == canonical - root + 1, "OBL C01.depth.formula: level = distance from the root + 1");
    }
}
#[kani::proof]
fn c01_recursion_args() {
    let min: u32 = kani::any(); let max: u32 = kani::any(); let root: u32 = kani::any(); let base: u32 = kani::any();
    let depth: u32 = kani::any(); let canon: u32 = kani::any();
    kani::cover!(true);
/*REC_ASSERTS*/
}
#[kani::proof]
fn canary_depth_must_fail() {
    let c: u32 = kani::any();
    kani::assume(c < 100);
    assert!(frag_depth(c, 0).1 == 2, "CANARY must fail");
}
