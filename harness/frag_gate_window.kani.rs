// C01: depth window. Oracle from the statement: level 1 = directly inside the root; an entry at level L is
// reported iff (min == 0 or L >= min) and (max == 0 or L <= max).
#[kani::proof]
fn c01_gate_report() {
    let min: u32 = kani::any(); let depth: u32 = kani::any();
    kani::cover!(true);
    assert!(frag_report_gate(min, depth) == (min == 0 || depth >= min), "OBL C01.gate.report");
}
#[kani::proof]
fn c01_gate_descend() {
    let max: u32 = kani::any(); let depth: u32 = kani::any();
    kani::assume(depth < u32::MAX);
    kani::cover!(true);
    assert!(frag_descend_gate(max, depth) == (max == 0 || depth + 1 <= max), "OBL C01.gate.descend");
}
#[kani::proof]
fn c01_window_step() {
    let min: u32 = kani::any(); let max: u32 = kani::any(); let d: u32 = kani::any();
    kani::assume(d >= 1 && d < u32::MAX);
    kani::assume(max == 0 || d <= max); // level d was reached
    let reported = frag_report_gate(min, d);
    kani::cover!(true);
    assert!(reported == ((min == 0 || d >= min) && (max == 0 || d <= max)), "OBL C01.window.step: reported iff in window");
    let reaches_next = frag_descend_gate(max, d);
    assert!(reaches_next == (max == 0 || d + 1 <= max), "OBL C01.window.step: next level reached iff within maxdepth");
}
#[kani::proof]
fn canary_gates_must_fail() {
    let d: u32 = kani::any();
    assert!(frag_report_gate(3, d), "CANARY must fail");
}
