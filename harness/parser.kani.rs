// Appended to the scratch copy of src/parser.rs. Engine K: the REAL parse_root_options on concrete token vectors.
#[cfg(kani)]
pub(crate) mod verif_kani {
    use super::*;
    fn opts(words: &[&str]) -> Option<RootOptions> {
        let mut p = Parser::new();
        for w in words { p.lexems.push(Lexem::RawString(String::from(*w))); }
        p.parse_root_options()
    }
    macro_rules! one {
        ($h:ident, $check:expr, $words:expr) => {
            #[kani::proof]
            #[kani::unwind(12)]
            fn $h() {
                kani::cover!(true);
                let c = opts(&$words);
                assert!(c.is_some() && $check(c.as_ref().unwrap()), "OBL C11.alias.rootopt: the spelling sets exactly this option");
                std::mem::forget(c);
            }
        };
    }
    fn only_sym(o: &RootOptions) -> bool { o.symlinks && !o.archives && o.min_depth == 0 && o.max_depth == 0 && o.gitignore.is_none() && o.traversal == Bfs }
    fn only_arc(o: &RootOptions) -> bool { o.archives && !o.symlinks && o.min_depth == 0 && o.max_depth == 0 && o.gitignore.is_none() && o.traversal == Bfs }
    one!(c11_rootopt_sym, only_sym, ["sym"]);
    one!(c11_rootopt_sym2, only_sym, ["symlinks"]);
    one!(c11_rootopt_sym3, only_sym, ["SYMLINKS"]);
    one!(c11_rootopt_arc, only_arc, ["arc"]);
    one!(c11_rootopt_arc2, only_arc, ["archives"]);
    one!(c11_rootopt_depth, |o: &RootOptions| o.max_depth == 3 && o.min_depth == 0, ["depth", "3"]);
    one!(c11_rootopt_depth2, |o: &RootOptions| o.max_depth == 3 && o.min_depth == 0, ["maxdepth", "3"]);
    #[kani::proof]
    #[kani::unwind(12)]
    fn canary_parser_must_fail() { assert!(opts(&["sym"]).unwrap().archives, "CANARY must fail"); }
}
