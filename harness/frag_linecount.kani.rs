fn script(n: usize, lens: [usize; 3], data: [[u8; 3]; 3], open_fails: bool, fail_at: usize) {
    unsafe { OPEN_FAILS = open_fails; FAIL_AT = fail_at; NCHUNKS = n; LENS = lens; DATA = data; }
}
fn line_feeds(n: usize, lens: &[usize; 3], data: &[[u8; 3]; 3]) -> usize {
    let mut t = 0; let mut c = 0;
    while c < n { let mut i = 0; while i < lens[c] { if data[c][i] == b'\n' { t += 1; } i += 1; } c += 1; }
    t
}
// C17: "if a file's content cannot be read, only that entry's content-derived columns are empty": a file that cannot be opened, or whose
// read fails at ANY point (first chunk, a later chunk, the end-of-file probe), has NO line count - never a partial one;
// a readable file has exactly the number of line feeds in all its chunks.
#[kani::proof]
#[kani::unwind(6)]
fn c17_linecount() {
    kani::cover!(true);
    let n: usize = kani::any(); kani::assume(n <= 3);
    let lens: [usize; 3] = kani::any(); kani::assume(lens[0] >= 1 && lens[0] <= 3 && lens[1] >= 1 && lens[1] <= 3 && lens[2] >= 1 && lens[2] <= 3);
    let data: [[u8; 3]; 3] = kani::any();
    let open_fails: bool = kani::any();
    let fail_at: usize = kani::any();
    script(n, lens, data, open_fails, fail_at);
    let r = get_line_count(&DirEntry);
    if open_fails || fail_at <= n {
        kani::cover!(!open_fails && fail_at == 2 && n == 3, "a read error after two good chunks is reachable");
        assert!(r.is_none(), "OBL C17.linecount: a file that cannot be opened or read to its end has no line count (never a partial one)");
    } else {
        assert!(r == Some(line_feeds(n, &lens, &data)), "OBL C17.linecount: a readable file has exactly the number of its line feeds");
    }
}
// the same for is_shebang: true exactly for a file that can be opened, whose first two bytes can be read, and are `#!`;
// an unreadable or shorter file is simply not a script (false), whatever a partial read delivered
#[kani::proof]
#[kani::unwind(6)]
fn c17_shebang() {
    kani::cover!(true);
    let n: usize = kani::any(); kani::assume(n <= 3);
    let lens: [usize; 3] = kani::any(); kani::assume(lens[0] >= 1 && lens[0] <= 3 && lens[1] >= 1 && lens[1] <= 3 && lens[2] >= 1 && lens[2] <= 3);
    let data: [[u8; 3]; 3] = kani::any();
    let open_fails: bool = kani::any();
    let fail_at: usize = kani::any();
    script(n, lens, data, open_fails, fail_at);
    let r = is_shebang(&PathBuf);
    // the first two bytes of the file and the chunk in which the second one lies
    let total = (if n > 0 { lens[0] } else { 0 }) + (if n > 1 { lens[1] } else { 0 }) + (if n > 2 { lens[2] } else { 0 });
    let second_chunk = if lens[0] >= 2 { 0 } else { 1 };
    let first = data[0][0];
    let second = if lens[0] >= 2 { data[0][1] } else { data[1][0] };
    let readable = !open_fails && total >= 2 && fail_at > second_chunk;
    kani::cover!(readable && lens[0] == 1 && first == b'#' && second == b'!', "a `#!` split over two reads is among the cases");
    if readable { assert!(r == (first == 0x23 && second == 0x21), "OBL C17.shebang: a file whose first two bytes can be read is a script exactly when they are #!"); }
    else { assert!(!r, "OBL C17.shebang: a file that cannot be opened, read, or has fewer than two bytes is not a script"); }
}
#[kani::proof]
#[kani::unwind(6)]
fn canary_linecount_must_fail() {
    script(1, [2, 1, 1], [[b'\n', b'\n', 0], [0; 3], [0; 3]], false, usize::MAX);
    assert!(get_line_count(&DirEntry) == Some(1), "CANARY must fail");
}
