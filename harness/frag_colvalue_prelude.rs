// ---- shim world for get_column_expr_value: same member names as the real types --------------------------------
pub struct DirEntry;
pub struct FileInfo;
#[derive(Clone, PartialEq, Debug)] pub enum VariantType { String, Int, Float, Bool, DateTime }
/// a flat (non-recursive, Copy) value algebra recording which operations were applied:
/// tag 1 = field value a; 2 = function value a; 3 = literal number a with sign b; 4 = cached text; 5 = negation of the
/// value (tag c, id a); 6 = calc(op a, left (l_tag, l_a), right (r_tag, r_a, r_b)); 0 = empty; 9 = other text
#[derive(Clone, Copy, PartialEq, Debug)]
pub struct Variant { pub tag: u8, pub a: u8, pub b: u8, pub c: u8, pub l_tag: u8, pub l_a: u8, pub r_tag: u8, pub r_a: u8, pub r_b: u8 }
pub const V0: Variant = Variant { tag: 0, a: 0, b: 0, c: 0, l_tag: 0, l_a: 0, r_tag: 0, r_a: 0, r_b: 0 };
pub fn v_field(n: u8) -> Variant { Variant { tag: 1, a: n, ..V0 } }
pub fn v_func(n: u8) -> Variant { Variant { tag: 2, a: n, ..V0 } }
pub fn v_lit(n: u8, minus: bool) -> Variant { Variant { tag: 3, a: n, b: minus as u8, ..V0 } }
pub fn v_neg(of: Variant) -> Variant { Variant { tag: 5, a: of.a, c: of.tag, ..V0 } }
impl Variant {
    /// the text form encodes the identity of the value: one letter for the kind, one digit for the id
    pub fn to_string(&self) -> String {
        let mut s = String::new();
        s.push(match self.tag { 1 => 'F', 2 => 'G', 3 => 'L', _ => 'X' });
        s.push((b'0' + self.a) as char);
        s
    }
    fn decode(v: &str) -> Variant {
        let b = v.as_bytes();
        if b.len() == 2 && b[1] >= b'0' && b[1] <= b'9' {
            let id = b[1] - b'0';
            match b[0] { b'F' => v_field(id), b'G' => v_func(id), _ => Variant { tag: 9, ..V0 } }
        } else if b.len() == 1 && b[0] >= b'0' && b[0] <= b'9' { v_lit(b[0] - b'0', false) } else { Variant { tag: 9, ..V0 } }
    }
    pub fn from_string(v: &String) -> Variant { Variant { tag: 4, ..V0 } }
    pub fn from_signed_string(v: &str, minus: bool) -> Variant {
        let d = Variant::decode(v);
        if d.tag == 3 { v_lit(d.a, minus) } else if minus { v_neg(d) } else { d }
    }
    pub fn empty(_t: VariantType) -> Variant { V0 }
    pub fn from_int(_v: i64) -> Variant { Variant { tag: 9, ..V0 } }
    pub fn from_float(_v: f64) -> Variant { Variant { tag: 9, ..V0 } }
    pub fn get_type(&self) -> VariantType { VariantType::String }
    pub fn to_int(&self) -> i64 { 0 }
    pub fn to_float(&self) -> f64 { 0.0 }
}
#[derive(Clone, Copy, PartialEq)] pub struct ArithmeticOp(pub u8);
impl ArithmeticOp { pub fn calc(&self, l: &Variant, r: &Variant) -> Variant { Variant { tag: 6, a: self.0, l_tag: l.tag, l_a: l.a, r_tag: r.tag, r_a: r.a, r_b: r.b, ..V0 } } }
#[derive(Clone, Copy, PartialEq)] pub struct Field(pub u8);
impl Field { pub fn to_string(&self) -> String { String::from("F") } }
pub struct Expr {
    pub left: Option<&'static Expr>, pub arithmetic_op: Option<ArithmeticOp>, pub right: Option<&'static Expr>, pub minus: bool,
    pub field: Option<Field>, pub function: Option<u8>, pub val: Option<&'static str>, pub key: &'static str,
}
impl Expr { pub fn to_string(&self) -> String { String::from(self.key) } }
pub fn leak(e: Expr) -> &'static Expr { Box::leak(Box::new(e)) }
pub fn leaf(key: &'static str) -> Expr { Expr { left: None, arithmetic_op: None, right: None, minus: false, field: None, function: None, val: None, key } }
/// association list standing for HashMap<String, String>
pub struct HashMap<K, V> { pub items: Vec<(K, V)> }
impl HashMap<String, String> {
    pub fn new() -> Self { HashMap { items: Vec::new() } }
    pub fn contains_key(&self, k: &String) -> bool { self.get(k).is_some() }
    pub fn get(&self, k: &String) -> Option<&String> { let mut i = 0; while i < self.items.len() { if &self.items[i].0 == k { return Some(&self.items[i].1); } i += 1; } None }
    pub fn insert(&mut self, k: String, v: String) { self.items.push((k, v)); }
}
impl std::ops::Index<&String> for HashMap<String, String> { type Output = String; fn index(&self, k: &String) -> &String { self.get(k).unwrap() } }
pub struct Searcher;
impl Searcher {
    pub fn get_field_value(&mut self, _e: &DirEntry, _fi: &Option<FileInfo>, f: &Field) -> Variant { v_field(f.0) }
    pub fn get_function_value(&mut self, _e: Option<&DirEntry>, _fi: &Option<FileInfo>, _m: &mut HashMap<String, String>,
                              _b: Option<&Vec<HashMap<String, String>>>, c: &Expr) -> Variant { v_func(c.function.unwrap()) }
}
