// C15: "the value shown in a column depends only on that column's expression" rests on the key text being
// different for different expressions. Pairs that differ only in operator, bracket placement, a later function
// argument or the sign (the pairs named by the property) must get different keys. BOUNDED: concrete pairs.
#[kani::proof]
#[kani::unwind(10)]
fn c15_key_operator() {
    kani::cover!(true);
    let a = Expr::bin(Expr::fld(Field::Size), ArithmeticOp::Add, Expr::lit("1")).to_string();
    let b = Expr::bin(Expr::fld(Field::Size), ArithmeticOp::Subtract, Expr::lit("1")).to_string();
    let c = Expr::bin(Expr::fld(Field::Size), ArithmeticOp::Multiply, Expr::lit("1")).to_string();
    assert!(a != b && a != c && b != c, "OBL C15.display.injective: size + 1, size - 1, size * 1 have different keys");
}
#[kani::proof]
#[kani::unwind(10)]
fn c15_key_brackets() {
    kani::cover!(true);
    // 2 + 3 * 4   vs   (2 + 3) * 4
    let a = Expr::bin(Expr::lit("2"), ArithmeticOp::Add, Expr::bin(Expr::lit("3"), ArithmeticOp::Multiply, Expr::lit("4"))).to_string();
    let b = Expr::bin(Expr::bin(Expr::lit("2"), ArithmeticOp::Add, Expr::lit("3")), ArithmeticOp::Multiply, Expr::lit("4")).to_string();
    assert!(a != b, "OBL C15.display.injective: bracket placement changes the key");
    // 1 - (2 - 3)  vs  (1 - 2) - 3
    let c = Expr::bin(Expr::lit("1"), ArithmeticOp::Subtract, Expr::bin(Expr::lit("2"), ArithmeticOp::Subtract, Expr::lit("3"))).to_string();
    let d = Expr::bin(Expr::bin(Expr::lit("1"), ArithmeticOp::Subtract, Expr::lit("2")), ArithmeticOp::Subtract, Expr::lit("3")).to_string();
    assert!(c != d, "OBL C15.display.injective: associativity changes the key");
}
#[kani::proof]
#[kani::unwind(32)]
fn c15_key_args() {
    kani::cover!(true);
    let mut a = Expr::leaf(); a.function = Some(Function::Substring); a.left = Some(leak(Expr::fld(Field::Name)));
    let mut v = Vec::new(); v.push(leak(Expr::lit("1"))); v.push(leak(Expr::lit("2"))); a.args = Some(v);
    let mut b = Expr::leaf(); b.function = Some(Function::Substring); b.left = Some(leak(Expr::fld(Field::Name)));
    let mut w = Vec::new(); w.push(leak(Expr::lit("1"))); w.push(leak(Expr::lit("3"))); b.args = Some(w);
    let (ka, kb) = (a.to_string(), b.to_string());
    std::mem::forget(a); std::mem::forget(b);
    assert!(ka != kb, "OBL C15.display.injective: later function arguments are part of the key");
}
#[kani::proof]
#[kani::unwind(10)]
fn c15_key_sign() {
    kani::cover!(true);
    let mut m = Expr::fld(Field::Size); m.minus = true;
    assert!(m.to_string() != Expr::fld(Field::Size).to_string(), "OBL C15.display.injective: -size and size have different keys");
    let mut e = Expr::leaf(); e.function = Some(Function::Length); e.left = Some(leak(Expr::fld(Field::Name)));
    assert!(e.to_string() != Expr::fld(Field::Name).to_string(), "OBL C15.display.injective: length(name) vs name");
}
#[kani::proof]
#[kani::unwind(10)]
fn canary_exprkey_must_fail() {
    assert!(Expr::fld(Field::Size).to_string() != Expr::fld(Field::Size).to_string(), "CANARY must fail");
}
