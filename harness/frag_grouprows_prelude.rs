// Shim world for the grouped output block of Searcher::list_search_results and partition_output_buffer (Engine F; C08): texts are one-byte tokens whose
// number is the byte; HashMap, Vec and Rc are heap-free stand-ins with the std method names (M20, M21).
use core::mem::MaybeUninit;
pub const CAP: usize = 4;
// a text of up to 3 ASCII characters (no heap); ordered as text; parse() reads it as a decimal number
#[derive(Clone, Copy, PartialEq, Eq, Debug)] pub struct String { pub b: [u8; 3], pub n: u8 }
pub fn tok(s: &str) -> String { let mut r = String::new(); r.push_str(s); r }
pub fn num(v: u8) -> String { let mut r = String::new(); if v >= 10 { r.push(b'0' + v / 10); } r.push(b'0' + v % 10); r }
impl String {
    pub fn new() -> String { String { b: [0; 3], n: 0 } }
    fn push(&mut self, c: u8) { if (self.n as usize) < 3 { self.b[self.n as usize] = c; self.n += 1; } else { kani::assume(false); } }
    pub fn push_str<S: AsBytes + ?Sized>(&mut self, s: &S) { let (b, n) = s.bytes3(); let mut i = 0; while i < n { self.push(b[i]); i += 1; } }
    pub fn to_string(&self) -> String { *self }
    pub fn to_lowercase(&self) -> String { *self }
    pub fn is_empty(&self) -> bool { self.n == 0 }
    pub fn value(&self) -> u8 { let mut v = 0u8; let mut i = 0; while i < self.n as usize { v = v * 10 + (self.b[i] - b'0'); i += 1; } v }
    pub fn parse<T: From<u8>>(&self) -> Result<T, ()> {
        if self.n == 0 { return Err(()); }
        let mut i = 0; while i < self.n as usize { if self.b[i] < b'0' || self.b[i] > b'9' { return Err(()); } i += 1; }
        Ok(T::from(self.value()))
    }
}
impl Default for String { fn default() -> String { String::new() } }
impl PartialOrd for String { fn partial_cmp(&self, o: &String) -> Option<core::cmp::Ordering> { Some(self.cmp(o)) } }
impl Ord for String { fn cmp(&self, o: &String) -> core::cmp::Ordering {
    let mut i = 0;
    while i < self.n as usize && i < o.n as usize { match self.b[i].cmp(&o.b[i]) { core::cmp::Ordering::Equal => {}, r => return r } i += 1; }
    self.n.cmp(&o.n) } }
pub trait AsBytes { fn bytes3(&self) -> ([u8; 3], usize); }
impl AsBytes for String { fn bytes3(&self) -> ([u8; 3], usize) { (self.b, self.n as usize) } }
impl AsBytes for str { fn bytes3(&self) -> ([u8; 3], usize) { let s = self.as_bytes(); let mut b = [0u8; 3]; let mut i = 0; while i < s.len() && i < 3 { b[i] = s[i]; i += 1; } (b, i) } }
pub struct Vec<T> { pub items: [MaybeUninit<T>; CAP], pub n: usize }
impl<T> Vec<T> {
    pub fn new() -> Vec<T> { Vec { items: unsafe { MaybeUninit::uninit().assume_init() }, n: 0 } }
    pub fn push(&mut self, v: T) { if self.n < CAP { self.items[self.n] = MaybeUninit::new(v); self.n += 1; } else { kani::assume(false); } }
    pub fn len(&self) -> usize { self.n }
    pub fn is_empty(&self) -> bool { self.n == 0 }
    pub fn get(&self, i: usize) -> Option<&T> { if i < self.n { Some(unsafe { self.items[i].assume_init_ref() }) } else { None } }
    pub fn iter(&self) -> VecIter<'_, T> { VecIter { v: self, i: 0 } }
    // stable insertion sort with the caller's comparator (std: sort_by is stable)
    pub fn sort_by<F: FnMut(&T, &T) -> core::cmp::Ordering>(&mut self, mut f: F) {
        let mut i = 1;
        while i < self.n {
            let mut j = i;
            while j > 0 && f(unsafe { self.items[j - 1].assume_init_ref() }, unsafe { self.items[j].assume_init_ref() }) == core::cmp::Ordering::Greater { self.items.swap(j - 1, j); j -= 1; }
            i += 1;
        }
    }
}
pub struct VecIter<'a, T> { v: &'a Vec<T>, i: usize }
impl<'a, T> Iterator for VecIter<'a, T> { type Item = &'a T; fn next(&mut self) -> Option<&'a T> { let r = self.v.get(self.i); if r.is_some() { self.i += 1; } r } }
impl<T> Default for Vec<T> { fn default() -> Vec<T> { Vec::new() } }
pub struct VecIntoIter<T> { v: Vec<T>, i: usize }
impl<T> Iterator for VecIntoIter<T> { type Item = T; fn next(&mut self) -> Option<T> { if self.i < self.v.n { let x = unsafe { self.v.items[self.i].assume_init_read() }; self.i += 1; Some(x) } else { None } } }
impl<T> IntoIterator for Vec<T> { type Item = T; type IntoIter = VecIntoIter<T>; fn into_iter(self) -> VecIntoIter<T> { VecIntoIter { v: self, i: 0 } } }
impl<'a, T> IntoIterator for &'a Vec<T> { type Item = &'a T; type IntoIter = VecIter<'a, T>; fn into_iter(self) -> VecIter<'a, T> { self.iter() } }
impl<T> core::ops::Index<usize> for Vec<T> { type Output = T; fn index(&self, i: usize) -> &T { self.get(i).unwrap() } }
impl<T: PartialEq> PartialEq for Vec<T> { fn eq(&self, o: &Vec<T>) -> bool { if self.n != o.n { return false; } let mut i = 0; while i < self.n { if self.get(i) != o.get(i) { return false; } i += 1; } true } }
impl<T: Clone> Clone for Vec<T> { fn clone(&self) -> Vec<T> { let mut v = Vec::new(); let mut i = 0; while i < self.n { v.push(self.get(i).unwrap().clone()); i += 1; } v } }
impl<T> core::iter::FromIterator<T> for Vec<T> { fn from_iter<I: IntoIterator<Item = T>>(it: I) -> Vec<T> { let mut v = Vec::new(); for x in it { v.push(x); } v } }
macro_rules! vec { ($($x:expr),* $(,)?) => {{ let mut v = Vec::new(); $( v.push($x); )* v }}; }
pub struct HashMap<K, V> { pub items: [MaybeUninit<(K, V)>; CAP], pub n: usize }
impl<K: PartialEq, V> HashMap<K, V> {
    pub fn new() -> HashMap<K, V> { HashMap { items: unsafe { MaybeUninit::uninit().assume_init() }, n: 0 } }
    fn at(&self, i: usize) -> &(K, V) { unsafe { self.items[i].assume_init_ref() } }
    fn find(&self, k: &K) -> Option<usize> { let mut i = 0; while i < self.n { if self.at(i).0 == *k { return Some(i); } i += 1; } None }
    pub fn contains_key(&self, k: &K) -> bool { self.find(k).is_some() }
    pub fn get(&self, k: &K) -> Option<&V> { match self.find(k) { Some(i) => Some(&self.at(i).1), None => None } }
    pub fn get_mut(&mut self, k: &K) -> Option<&mut V> { match self.find(k) { Some(i) => Some(unsafe { &mut self.items[i].assume_init_mut().1 }), None => None } }
    pub fn insert(&mut self, k: K, v: V) -> Option<V> {
        match self.find(&k) {
            Some(i) => Some(core::mem::replace(unsafe { &mut self.items[i].assume_init_mut().1 }, v)),
            None => { if self.n < CAP { self.items[self.n] = MaybeUninit::new((k, v)); self.n += 1; } else { kani::assume(false); } None }
        }
    }
    pub fn len(&self) -> usize { self.n }
    pub fn is_empty(&self) -> bool { self.n == 0 }
    pub fn iter(&self) -> MapIter<'_, K, V> { MapIter { m: self, i: 0 } }
}
pub struct MapEntry<'a, K, V> { m: &'a mut HashMap<K, V>, k: K }
impl<K: PartialEq, V> HashMap<K, V> {
    pub fn entry(&mut self, k: K) -> MapEntry<'_, K, V> { MapEntry { m: self, k } }
    pub fn into_values(self) -> VecIntoIter<V> { let mut v = Vec::new(); let mut i = 0; while i < self.n { v.push(unsafe { self.items[i].assume_init_read() }.1); i += 1; } v.into_iter() }
}
impl<'a, K: PartialEq, V> MapEntry<'a, K, V> {
    pub fn or_insert_with<F: FnOnce() -> V>(self, f: F) -> &'a mut V {
        let i = match self.m.find(&self.k) { Some(i) => i, None => { let i = self.m.n; if i < CAP { self.m.items[i] = MaybeUninit::new((self.k, f())); self.m.n += 1; } else { kani::assume(false); } i } };
        unsafe { &mut self.m.items[i].assume_init_mut().1 }
    }
    pub fn or_default(self) -> &'a mut V where V: Default { self.or_insert_with(V::default) }
}
impl<K: PartialEq, V> core::iter::FromIterator<(K, V)> for HashMap<K, V> { fn from_iter<I: IntoIterator<Item = (K, V)>>(it: I) -> HashMap<K, V> { let mut m = HashMap::new(); for (k, v) in it { m.insert(k, v); } m } }
pub struct MapIter<'a, K, V> { m: &'a HashMap<K, V>, i: usize }
impl<'a, K: PartialEq, V> Iterator for MapIter<'a, K, V> { type Item = (&'a K, &'a V);
    fn next(&mut self) -> Option<(&'a K, &'a V)> { if self.i < self.m.n { let kv = self.m.at(self.i); self.i += 1; Some((&kv.0, &kv.1)) } else { None } } }
impl<K: PartialEq + Clone, V: Clone> Clone for HashMap<K, V> { fn clone(&self) -> HashMap<K, V> { let mut m = HashMap::new(); let mut i = 0; while i < self.n { let kv = self.at(i); m.items[i] = MaybeUninit::new((kv.0.clone(), kv.1.clone())); i += 1; } m.n = self.n; m } }
// Rc: shared ownership is irrelevant here; a plain box with the same surface
pub struct Rc<T>(pub T);
impl<T> Rc<T> { pub fn new(t: T) -> Rc<T> { Rc(t) } }
impl<T> core::ops::Deref for Rc<T> { type Target = T; fn deref(&self) -> &T { &self.0 } }
impl<T: Clone> Clone for Rc<T> { fn clone(&self) -> Rc<T> { Rc(self.0.clone()) } }
pub mod std { pub mod cmp { pub use core::cmp::Ordering; } pub mod io { pub fn stdout() -> super::super::Out { super::super::Out } } }
// column expressions: id 5 = the grouping key column, id 7 = COUNT(*), id 8 = another key-like column that is not in the row map
#[derive(Clone, Copy)] pub struct Expr { pub id: u8 }
impl Expr { pub fn to_string(&self) -> String { num(self.id) } pub fn has_aggregate_function(&self) -> bool { self.id == 7 } }
pub struct Val(pub String);
impl Val { pub fn text(&self) -> String { self.0 } }
macro_rules! format { ("{}", $e:expr) => { $e.text() }; }
pub struct DirEntry;
pub struct FileInfo;
pub struct WritableBuffer { pub rows: u8, pub seps: u8 }
impl WritableBuffer { pub fn new() -> WritableBuffer { WritableBuffer { rows: 0, seps: 0 } } }
pub struct Rendered;
impl From<WritableBuffer> for Rendered { fn from(_b: WritableBuffer) -> Rendered { Rendered } }
pub struct Out;
impl Out { pub fn emit(&mut self, _r: &Rendered) -> Result<(), ()> { Ok(()) } }
macro_rules! write { ($dst:expr, "{}", String::from($arg:expr)) => { $dst.emit(&Rendered::from($arg)) }; }
/// records every row written: (key text, count text) of up to 4 rows, and the separators
pub struct ResultsWriter { pub rows: [(u8, u8); CAP], pub n: usize, pub separators: u32, pub sep_before_first: bool }
impl ResultsWriter {
    pub fn write_row(&mut self, w: &mut WritableBuffer, items: Vec<(String, String)>) -> Result<(), ()> {
        let a = match items.get(0) { Some(x) => x.1.value(), None => 0 };
        let b = match items.get(1) { Some(x) => x.1.value(), None => 0 };
        if self.n < CAP { self.rows[self.n] = (a, b); self.n += 1; }
        w.rows += 1;
        Ok(())
    }
    pub fn write_row_separator(&mut self, w: &mut WritableBuffer) -> Result<(), ()> { if self.n == 0 { self.sep_before_first = true; } self.separators += 1; w.seps += 1; Ok(()) }
}
pub struct Query { pub fields: Vec<Expr>, pub grouping_fields: Rc<Vec<Expr>>, pub ordering_fields: Rc<Vec<Expr>>, pub ordering_asc: Rc<Vec<bool>> }
pub struct Searcher<'a> { pub query: &'a Query, pub raw_output_buffer: Vec<HashMap<String, String>>, pub partitioned_output_buffer: Rc<HashMap<Vec<String>, Vec<HashMap<String, String>>>>,
                      pub results_writer: ResultsWriter, pub evals_with_entry: u32 }
impl<'a> Searcher<'a> {
    /// the value of a column for a group: the key column reads the per-group map, COUNT(*) counts the rows of the partition handed in
    pub fn get_column_expr_value(&mut self, entry: Option<&DirEntry>, _fi: &Option<FileInfo>, file_map: &mut HashMap<String, String>, buffer: Option<&Vec<HashMap<String, String>>>, e: &Expr) -> Val {
        if entry.is_some() { self.evals_with_entry += 1; }
        match e.id {
            7 => Val(num(match buffer { Some(rows) => rows.len() as u8, None => 99 })),
            id => Val(match file_map.get(&num(id)) { Some(v) => *v, None => String::new() }),
        }
    }
}
