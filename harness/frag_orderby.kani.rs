// C05 / C10: positional ORDER BY key
#[kani::proof]
fn c05_positional() {
    let fields: [u8; 3] = [kani::any(), kani::any(), kani::any()];
    let n: usize = kani::any();
    kani::assume(n <= 3);
    let idx: usize = kani::any();
    let r = frag_positional(&fields[..n], idx);
    kani::cover!(n == 3 && idx == 3);
    if idx >= 1 && idx <= n {
        assert!(r == Ok(fields[idx - 1]), "OBL C05.orderby.positional: `order by k` selects the k-th select-list column");
    } else {
        assert!(r.is_err(), "OBL C05.orderby.positional: a position outside 1..=|columns| is rejected");
    }
}
#[kani::proof]
#[kani::unwind(5)]
fn c05_desc() {
    let n: usize = kani::any();
    kani::assume(n <= 3);
    let mut v: Vec<bool> = Vec::new();
    let mut i = 0;
    while i < n { v.push(kani::any()); i += 1; }
    let before = v.clone();
    let r = frag_desc(&mut v);
    kani::cover!(n == 3);
    if n == 0 {
        assert!(r.is_err(), "OBL C05.orderby.desc: DESC without a preceding key is rejected");
    } else {
        assert!(r.is_ok() && v.len() == n && v[n - 1] == false, "OBL C05.orderby.desc: DESC flips the last key to descending");
        let mut j = 0;
        while j + 1 < n { assert!(v[j] == before[j], "OBL C05.orderby.desc: other keys keep their direction"); j += 1; }
    }
}
