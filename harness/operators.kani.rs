// Appended to the scratch copy of src/operators.rs. Engine K.
#[cfg(kani)]
pub(crate) mod verif_kani {
    use super::*;

    fn any_op() -> Op {
        let k: u8 = kani::any();
        kani::assume(k < 14);
        match k { 0 => Op::Eq, 1 => Op::Ne, 2 => Op::Eeq, 3 => Op::Ene, 4 => Op::Gt, 5 => Op::Gte, 6 => Op::Lt,
                  7 => Op::Lte, 8 => Op::Rx, 9 => Op::NotRx, 10 => Op::Like, 11 => Op::NotLike, 12 => Op::Between,
                  _ => Op::NotBetween }
    }

    /// the documented positive/negative pairs (docs/usage.md operator table)
    pub fn spec_negation_pair(a: Op, b: Op) -> bool {
        matches!((a, b), (Op::Eq, Op::Ne) | (Op::Ne, Op::Eq) | (Op::Eeq, Op::Ene) | (Op::Ene, Op::Eeq)
            | (Op::Gt, Op::Lte) | (Op::Lte, Op::Gt) | (Op::Lt, Op::Gte) | (Op::Gte, Op::Lt)
            | (Op::Rx, Op::NotRx) | (Op::NotRx, Op::Rx) | (Op::Like, Op::NotLike) | (Op::NotLike, Op::Like)
            | (Op::Between, Op::NotBetween) | (Op::NotBetween, Op::Between))
    }

    #[kani::proof_for_contract(Op::negate)]
    fn c03_negate_contract() { let op = any_op(); let _ = Op::negate(op); kani::cover!(true); }

    #[kani::proof]
    fn c03_negate_involution() {
        let op = any_op();
        kani::cover!(true);
        assert!(Op::negate(Op::negate(op)) == op, "OBL C03.negate.involution");
        assert!(Op::negate(op) != op, "OBL C03.negate.involution: negation changes the operator");
    }
    #[kani::proof]
    fn t03_negate_pairs() {
        let op = any_op();
        kani::cover!(true);
        assert!(spec_negation_pair(op, Op::negate(op)), "OBL twin C03.negate.pairs");
    }

    // from_with_not: `x not OP y` is parsed as the negated operator
    #[kani::proof]
    fn c03_from_with_not_gt() {
        kani::cover!(true);
        assert!(Op::from_with_not(String::from(">"), true) == Some(Op::Lte), "OBL C03.from_with_not: not > is <=");
        assert!(Op::from_with_not(String::from(">"), false) == Some(Op::Gt), "OBL C03.from_with_not");
        assert!(Op::from_with_not(String::from("like"), true) == Some(Op::NotLike), "OBL C03.from_with_not: not like");
    }

    // ---- C11 / C02: alias tables (docs/usage.md operator list), each spelling in lower and UPPER case ----
    macro_rules! alias {
        ($h:ident, $expect:expr, $($sp:expr),+) => {
            #[kani::proof]
            #[kani::unwind(12)]
            fn $h() {
                kani::cover!(true);
                $( assert!(Op::from(String::from($sp)) == $expect, concat!("OBL C11.alias.op: spelling ", $sp)); )+
            }
        };
    }
    alias!(c11_op_eq, Some(Op::Eq), "=", "==", "eq", "EQ");
    alias!(c11_op_ne, Some(Op::Ne), "!=", "<>", "ne", "NE");
    alias!(c11_op_eeq, Some(Op::Eeq), "===", "eeq", "EEQ");
    alias!(c11_op_ene, Some(Op::Ene), "!==", "ene", "ENE");
    alias!(c11_op_gt, Some(Op::Gt), ">", "gt", "GT");
    alias!(c11_op_gte, Some(Op::Gte), ">=", "gte", "ge", "GTE", "GE");
    alias!(c11_op_lt, Some(Op::Lt), "<", "lt", "LT");
    alias!(c11_op_lte, Some(Op::Lte), "<=", "lte", "le", "LTE", "LE");
    alias!(c11_op_rx, Some(Op::Rx), "=~", "~=", "regexp", "rx", "REGEXP", "RX");
    alias!(c11_op_notrx, Some(Op::NotRx), "!=~", "!~=", "notrx", "NOTRX");
    alias!(c11_op_like, Some(Op::Like), "like", "LIKE", "Like");
    alias!(c11_op_notlike, Some(Op::NotLike), "notlike", "NOTLIKE");
    alias!(c11_op_between, Some(Op::Between), "between", "BETWEEN");
    macro_rules! arith {
        ($h:ident, $expect:expr, $($sp:expr),+) => {
            #[kani::proof]
            #[kani::unwind(12)]
            fn $h() {
                kani::cover!(true);
                $( assert!(ArithmeticOp::from(String::from($sp)) == $expect, concat!("OBL C11.alias.arith: spelling ", $sp)); )+
            }
        };
    }
    arith!(c11_arith_add, Some(ArithmeticOp::Add), "+", "plus", "PLUS");
    arith!(c11_arith_sub, Some(ArithmeticOp::Subtract), "-", "minus", "MINUS");
    arith!(c11_arith_mul, Some(ArithmeticOp::Multiply), "*", "mul", "MUL");
    arith!(c11_arith_div, Some(ArithmeticOp::Divide), "/", "div", "DIV");
    arith!(c11_arith_mod, Some(ArithmeticOp::Modulo), "%", "mod", "MOD");

    #[kani::proof]
    fn canary_ops_must_fail() {
        let op = any_op();
        assert!(Op::negate(op) == Op::Eq, "CANARY must fail");
    }
}
