// Appended to the scratch copy of src/operators.rs. Engine K.
#[cfg(kani)]
pub(crate) mod verif_kani {
    use super::*;

    fn any_op() -> Op {
        let k: u8 = kani::any();
        kani::assume(k < 14);
        match k { 0 => Op::Eq, 1 => Op::Ne, 2 => Op::Eeq, 3 => Op::Ene, 4 => Op::Gt, 5 => Op::Gte, 6 => Op::Lt,
                  7 => Op::Lte, 8 => Op::Rx, 9 => Op::NotRx, 10 => Op::Like, 11 => Op::NotLike, 12 => Op::Between,
                  _ => Op::NotBetween }
    }

    /// the documented positive/negative pairs (docs/usage.md operator table)
    pub fn spec_negation_pair(a: Op, b: Op) -> bool {
        matches!((a, b), (Op::Eq, Op::Ne) | (Op::Ne, Op::Eq) | (Op::Eeq, Op::Ene) | (Op::Ene, Op::Eeq)
            | (Op::Gt, Op::Lte) | (Op::Lte, Op::Gt) | (Op::Lt, Op::Gte) | (Op::Gte, Op::Lt)
            | (Op::Rx, Op::NotRx) | (Op::NotRx, Op::Rx) | (Op::Like, Op::NotLike) | (Op::NotLike, Op::Like)
            | (Op::Between, Op::NotBetween) | (Op::NotBetween, Op::Between))
    }

    #[kani::proof_for_contract(Op::negate)]
    fn c03_negate_contract() { let op = any_op(); let _ = Op::negate(op); kani::cover!(true); }

    #[kani::proof]
    fn c03_negate_involution() {
        let op = any_op();
        kani::cover!(true);
        assert!(Op::negate(Op::negate(op)) == op, "OBL C03.negate.involution");
        assert!(Op::negate(op) != op, "OBL C03.negate.involution: negation changes the operator");
    }
    #[kani::proof]
    fn t03_negate_pairs() {
        let op = any_op();
        kani::cover!(true);
        assert!(spec_negation_pair(op, Op::negate(op)), "OBL twin C03.negate.pairs");
    }

    // from_with_not: `x not OP y` is parsed as the negated operator
    #[kani::proof]
    fn c03_from_with_not_gt() {
        kani::cover!(true);
        assert!(Op::from_with_not(String::from(">"), true) == Some(Op::Lte), "OBL C03.from_with_not: not > is <=");
        assert!(Op::from_with_not(String::from(">"), false) == Some(Op::Gt), "OBL C03.from_with_not");
        assert!(Op::from_with_not(String::from("like"), true) == Some(Op::NotLike), "OBL C03.from_with_not: not like");
    }

    #[kani::proof]
    fn canary_ops_must_fail() {
        let op = any_op();
        assert!(Op::negate(op) == Op::Eq, "CANARY must fail");
    }
}
