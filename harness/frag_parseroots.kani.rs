fn run(tokens: Vec<Lexem>) -> (Vec<Root>, usize) { let mut p = Parser { lexems: tokens, index: 0 }; let r = p.parse_roots(); (r, p.index) }
fn raw(id: u8) -> Lexem { Lexem::RawString(String(id)) }
// C11: `GROUP BY` after a root's options ends the root list in any letter case and keeps the options read so far
fn group_case(word: u8) {
    let (roots, idx) = run(vec![Lexem::From, raw(10), raw(41), raw(word), Lexem::By, raw(50)]);
    assert!(roots.len() == 1 && roots[0] == Root { path: String(10), options: RootOptions { tag: 41 } }, "OBL C11.roots.group: the root keeps its options when GROUP BY follows, whatever the letter case of GROUP");
    assert!(idx == 3, "OBL C11.roots.group: the cursor is left on GROUP for parse_group_by");
}
#[kani::proof]
#[kani::unwind(10)]
fn c11_roots_group_case() {
    kani::cover!(true);
    group_case(1);      // group
    group_case(2);      // GROUP / Group
}
// several roots, each with its own options; the list ends at the first token that is neither a path, an option nor a comma
#[kani::proof]
#[kani::unwind(10)]
fn c11_roots_list() {
    kani::cover!(true);
    let (roots, idx) = run(vec![Lexem::From, raw(10), Lexem::Comma, raw(11), raw(41), raw(42), Lexem::Where, raw(50)]);
    assert!(roots.len() == 2 && roots[0] == Root { path: String(10), options: RootOptions { tag: 0 } } && roots[1] == Root { path: String(11), options: RootOptions { tag: 42 } },
            "OBL C11.roots.list: every root gets exactly the options written after it");
    assert!(idx == 6, "OBL C11.roots.list: the cursor is left on WHERE");
    let (r2, i2) = run(vec![Lexem::From, Lexem::String(String(12))]);
    assert!(r2.len() == 1 && r2[0] == Root { path: String(12), options: RootOptions { tag: 0 } } && i2 >= 2, "OBL C11.roots.list: a quoted path is a root");
    let (r3, i3) = run(vec![raw(50), Lexem::From]);
    assert!(r3.is_empty() && i3 == 0, "OBL C11.roots.list: without FROM nothing is consumed");
}
// the option `regexp` / `rx` is an operator token: it starts the option list like any option word
#[kani::proof]
#[kani::unwind(10)]
fn c11_roots_rx_first() {
    kani::cover!(true);
    let (roots, idx) = run(vec![Lexem::From, raw(10), Lexem::Operator(String(30)), raw(41), Lexem::Where]);
    assert!(roots.len() == 1 && roots[0] == Root { path: String(10), options: RootOptions { tag: 41 } } && idx == 4, "OBL C11.roots.rx: rx as the first option opens the option list (the options parser sees rx and what follows)");
    let (r2, _i2) = run(vec![Lexem::From, raw(10), Lexem::Operator(String(30))]);
    assert!(r2.len() == 1 && r2[0].options == RootOptions { tag: 30 }, "OBL C11.roots.rx: rx alone");
}
#[kani::proof]
#[kani::unwind(10)]
fn canary_parseroots_must_fail() {
    let (roots, _i) = run(vec![Lexem::From, raw(10)]);
    assert!(roots.is_empty(), "CANARY must fail");
}
