pub const N: usize = 6;
pub const INSIDE: usize = 6;        // every node lives under the root
pub const ROOT_DEPTH: u32 = 3;
pub const PARENT: [u8; N] = [0, 0, 0, 1, 1, 4];
pub const IS_DIR: [bool; N] = [true, true, false, false, true, false];
pub const IS_LINK: [bool; N] = [false; N];
pub const TARGET: [u8; N] = [0; N];
pub const TARGET_RELATIVE: [bool; N] = [false; N];
pub const LEVEL: [u32; N] = [0, 1, 1, 2, 2, 3];
pub const CDEPTH: [u32; N] = [3, 4, 4, 5, 5, 6];
/*--*/
pub static PATHS: [Path; N] = [Path(0, false), Path(1, false), Path(2, false), Path(3, false), Path(4, false), Path(5, false)];
