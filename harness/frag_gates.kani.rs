// C01: depth window arithmetic. Oracle from the statement: level 1 = directly inside the root; an entry at
// level L is reported iff (min == 0 or L >= min) and (max == 0 or L <= max).
#[kani::proof]
fn c01_gate_report() {
    let min: u32 = kani::any(); let depth: u32 = kani::any();
    kani::cover!(true);
    assert!(frag_report_gate(min, depth) == (min == 0 || depth >= min), "OBL C01.gate.report");
}
#[kani::proof]
fn c01_gate_descend() {
    let max: u32 = kani::any(); let depth: u32 = kani::any();
    kani::assume(depth < u32::MAX);
    kani::cover!(true);
    // children of a directory at level `depth` are at level depth+1: visited iff depth+1 <= max (or unlimited)
    assert!(frag_descend_gate(max, depth) == (max == 0 || depth + 1 <= max), "OBL C01.gate.descend");
}
#[kani::proof]
fn c01_depth_formula() {
    let canonical: u32 = kani::any(); let root: u32 = kani::any();
    kani::assume(root == 0 || (canonical >= root && canonical - root < u32::MAX));
    let (base, depth) = frag_depth(canonical, root);
    kani::cover!(true);
    if root == 0 {
        assert!(base == canonical && depth == 1, "OBL C01.depth.formula: entries directly inside the root are level 1");
    } else {
        assert!(base == root && depth == canonical - root + 1, "OBL C01.depth.formula: level = distance from the root + 1");
    }
}
// window lemma (one step of the induction over levels, from the gate contracts): entries of a directory at
// level d are reported iff d is in the window, and the traversal reaches level d+1 iff d+1 <= max.
#[kani::proof]
fn c01_window_step() {
    let min: u32 = kani::any(); let max: u32 = kani::any(); let d: u32 = kani::any();
    kani::assume(d >= 1 && d < u32::MAX);
    kani::assume(max == 0 || d <= max); // level d was reached
    let reported = frag_report_gate(min, d);
    kani::cover!(true);
    assert!(reported == ((min == 0 || d >= min) && (max == 0 || d <= max)), "OBL C01.window.step: reported iff in window");
    let reaches_next = frag_descend_gate(max, d);
    assert!(reaches_next == (max == 0 || d + 1 <= max), "OBL C01.window.step: next level reached iff within maxdepth");
}
// C06: unbuffered early exit.
#[kani::proof]
fn c06_gate_dir() {
    let b: bool = kani::any(); let limit: u32 = kani::any(); let found: u32 = kani::any();
    kani::cover!(true);
    assert!(frag_exit_dir(b, limit, found) == (!b && limit > 0 && found >= limit), "OBL C06.gate.dir");
}
#[kani::proof]
fn c06_gate_archive() {
    let b: bool = kani::any(); let limit: u32 = kani::any(); let found: u32 = kani::any();
    kani::cover!(true);
    assert!(frag_exit_archive(b, limit, found) == (!b && limit > 0 && found >= limit), "OBL C06.gate.archive");
}
#[kani::proof]
fn canary_gates_must_fail() {
    let d: u32 = kani::any();
    assert!(frag_report_gate(3, d), "CANARY must fail");
}
