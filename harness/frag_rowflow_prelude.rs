// ---- shim world for check_file and the ordered output loop --------------------------------------------------------
use ::std::rc::Rc;
use ::std::vec::Vec;
use ::std::string::String;
pub struct DirEntry;
pub struct FileInfo;
#[derive(PartialEq, Clone, Copy)] pub enum ErrorKind { BrokenPipe, Other }
pub struct IoError { pub k: ErrorKind }
impl IoError { pub fn kind(&self) -> ErrorKind { self.k } }
pub mod io { pub type Result<T> = core::result::Result<T, super::IoError>; }
/// everything written, in order: 'S' = row separator, 'R' + row id = a row (or the text of a buffered row)
pub static mut LOG: Vec<u8> = Vec::new();
pub fn log_push(b: u8) { unsafe { (*(&raw mut LOG)).push(b); } }
pub fn log_take() -> Vec<u8> { unsafe { core::mem::take(&mut *(&raw mut LOG)) } }
pub trait Sink { fn put(&mut self, b: u8); }
pub struct Out;
impl Sink for Out { fn put(&mut self, b: u8) { log_push(b); } }
impl Out { pub fn emit(&mut self, text: &String) -> io::Result<()> { for b in text.as_bytes() { log_push(*b); } Ok(()) } }
pub mod std { pub mod io { pub fn stdout() -> super::super::Out { super::super::Out } } }
// `write!(std::io::stdout(), "{}", x)` of the real code: emit the text of x
macro_rules! write { ($dst:expr, $fmt:expr, $arg:expr) => { $dst.emit(&$arg) }; }
pub struct WritableBuffer { pub bytes: Vec<u8> }
impl WritableBuffer { pub fn new() -> WritableBuffer { WritableBuffer { bytes: Vec::new() } } }
impl Sink for WritableBuffer { fn put(&mut self, b: u8) { self.bytes.push(b); } }
impl From<WritableBuffer> for String { fn from(b: WritableBuffer) -> String { unsafe { String::from_utf8_unchecked(b.bytes) } } }
pub struct ResultsWriter;
impl ResultsWriter {
    pub fn write_row_separator<W: Sink>(&mut self, w: &mut W) -> io::Result<()> { w.put(b'S'); Ok(()) }
    /// a row is rendered as 'R' followed by, per item, the last byte of its name and the last byte of its value
    pub fn write_row<W: Sink>(&mut self, w: &mut W, items: Vec<(String, String)>) -> io::Result<()> {
        w.put(b'R');
        let mut i = 0;
        while i < items.len() { w.put(*items[i].0.as_bytes().last().unwrap()); w.put(*items[i].1.as_bytes().last().unwrap()); i += 1; }
        Ok(())
    }
}
#[derive(Clone, Copy, PartialEq)] pub struct Field(pub u8);
impl Field { pub fn to_string(&self) -> String { let mut s = String::from("F"); s.push((b'0' + self.0) as char); s } }
#[derive(Clone)] pub struct Expr { pub id: u8 }
impl Expr {
    pub fn to_string(&self) -> String { let mut s = String::from("E"); s.push((b'0' + self.id) as char); s }
    pub fn contains_colorized(&self) -> bool { false }
}
#[derive(Clone, Copy)] pub struct Variant { pub id: u8 }
impl Variant { pub fn to_string(&self) -> String { let mut s = String::from("v"); s.push((b'0' + self.id) as char); s } }
pub struct HashMap<K, V> { pub items: Vec<(K, V)> }
impl HashMap<String, String> {
    pub fn new() -> Self { HashMap { items: Vec::new() } }
    pub fn insert(&mut self, k: String, v: String) { self.items.push((k, v)); }
    pub fn get(&self, k: &String) -> Option<&String> { let mut i = 0; while i < self.items.len() { if &self.items[i].0 == k { return Some(&self.items[i].1); } i += 1; } None }
}
pub struct Query { pub expr: Option<Expr>, pub fields: Vec<Expr>, pub grouping_fields: Rc<Vec<Expr>>, pub ordering_fields: Rc<Vec<Expr>>,
                   pub ordering_asc: Rc<Vec<bool>>, pub all_fields: Vec<Field>, pub limit: u32 }
impl Query { pub fn get_all_fields(&self) -> Vec<Field> { self.all_fields.clone() } }
pub struct Criteria { pub values: Vec<String> }
impl Criteria { pub fn new(_f: Rc<Vec<Expr>>, values: Vec<String>, _asc: Rc<Vec<bool>>) -> Criteria { Criteria { values } } }
pub struct TopN { pub rows: Vec<(Vec<String>, String)> }
impl TopN {
    pub fn insert(&mut self, k: Criteria, v: String) -> Option<String> { self.rows.push((k.values, v)); None }
    pub fn values(&self) -> Vec<String> { let mut out = Vec::new(); let mut i = 0; while i < self.rows.len() { out.push(self.rows[i].1.clone()); i += 1; } out }
}
pub struct Fms { pub cleared: u32 }
impl Fms { pub fn clear(&mut self) { self.cleared += 1; } }
pub struct Searcher { pub fms: Fms, pub query: &'static Query, pub found: u32, pub results_writer: ResultsWriter, pub use_colors: bool, pub output_buffer: TopN,
                      pub raw_output_buffer: Vec<HashMap<String, String>>, pub where_result: bool, pub buffered: bool, pub aggregate: bool, pub evaluated: Vec<u8> }
impl Searcher {
    pub fn conforms(&mut self, _e: &DirEntry, _fi: &Option<FileInfo>, _x: &Expr) -> bool { self.where_result }
    pub fn is_buffered(&self) -> bool { self.buffered }
    pub fn has_aggregate_column(&self) -> bool { self.aggregate }
    pub fn get_field_value(&mut self, _e: &DirEntry, _fi: &Option<FileInfo>, f: &Field) -> Variant { Variant { id: f.0 } }
    pub fn colorize(&mut self, v: &str) -> String { String::from(v) }
    pub fn get_column_expr_value(&mut self, _e: Option<&DirEntry>, _fi: &Option<FileInfo>, file_map: &mut HashMap<String, String>,
                                 _b: Option<&Vec<HashMap<String, String>>>, x: &Expr) -> Variant {
        self.evaluated.push(x.id);
        let v = Variant { id: x.id };
        file_map.insert(x.to_string(), v.to_string());
        v
    }
}
pub fn searcher(buffered: bool, aggregate: bool, where_result: bool, fields: Vec<Expr>, ordering: Vec<Expr>, found: u32) -> Searcher {
    let n = ordering.len();
    let mut asc = Vec::new(); let mut i = 0; while i < n { asc.push(true); i += 1; }
    let query: &'static Query = ::std::boxed::Box::leak(::std::boxed::Box::new(Query { expr: Some(Expr { id: 9 }), fields, grouping_fields: Rc::new(Vec::new()),
               ordering_fields: Rc::new(ordering), ordering_asc: Rc::new(asc), all_fields: Vec::new(), limit: 0 }));
    Searcher { fms: Fms { cleared: 0 }, query, found, results_writer: ResultsWriter, use_colors: false,
               output_buffer: TopN { rows: Vec::new() }, raw_output_buffer: Vec::new(), where_result, buffered, aggregate, evaluated: Vec::new() }
}
