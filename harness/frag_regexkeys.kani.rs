// The same pattern text under operators of different kinds (glob = / !=, regex =~ / !=~, LIKE) denotes different
// regular expressions, so it must not share a cache entry; an operator and its negation share the pattern.
fn check(val: &str) {
    let (g1, g2) = (key_eq(String::from(val)), key_ne(String::from(val)));
    let (r1, r2) = (key_rx(String::from(val)), key_notrx(String::from(val)));
    let (l1, l2) = (key_like(String::from(val)), key_notlike(String::from(val)));
    assert!(g1 != r1 && g1 != l1 && r1 != l1, "OBL C12.cache.keys: glob / regex / LIKE patterns with the same text use distinct cache keys");
    assert!(g2 != r2 && g2 != l2 && r2 != l2, "OBL C12.cache.keys: same for the negative operators");
    assert!(g1 != r2 && g1 != l2 && r1 != g2 && r1 != l2 && l1 != g2 && l1 != r2, "OBL C12.cache.keys: positive vs negative of another kind");
}
#[kani::proof]
#[kani::unwind(12)]
fn c12_cache_keys() {
    kani::cover!(true);
    check("s.");
    check("");
    check("a*b?");
}
#[kani::proof]
#[kani::unwind(12)]
fn c12_cache_keys_injective() {
    kani::cover!(true);
    assert!(key_eq(String::from("ab")) != key_eq(String::from("ac")), "OBL C12.cache.keys: different patterns, different keys");
    assert!(key_like(String::from("a")) != key_like(String::from("")), "OBL C12.cache.keys: different patterns, different keys");
}
