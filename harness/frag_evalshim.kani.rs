// C02: `column OP literal` compares the value of the LEFT expression with the value of the RIGHT expression, and each
// operand is evaluated on its own (a fresh cache), so that a literal can never be answered from the cache entry of a
// column ("a quoted literal is always text").
#[kani::proof]
#[kani::unwind(8)]
fn c02_operands() {
    kani::cover!(true);
    let mut s = Searcher::new();
    let e = Expr { id: 0, left: Some(Box::new(Expr::leaf(1, "Name"))), right: Some(Box::new(Expr::leaf(2, "Name"))), function: None, args: None, val: None, key: "cmp" };
    let entry = DirEntry;
    let (f, v) = s.frag_operands(&entry, &None, &e);
    assert!(f.of == 1 && v.of == 2, "OBL C02.operands: field value from the left operand, literal from the right operand");
    assert!(s.log.len() == 2 && s.log[0] == (1, 1, true) && s.log[1] == (1, 2, true), "OBL C02.operands: each operand is evaluated once, with its own empty cache");
    std::mem::forget(e);
}
// C07: an aggregate over a scalar expression evaluates the inner expression for the entry (that is what fills the
// aggregate buffer) and aggregates the buffer column named by the inner expression's text.
#[kani::proof]
#[kani::unwind(20)]
fn c07_aggregate_dispatch() {
    kani::cover!(true);
    let mut s = Searcher::new();
    let mut map = HashMap::new();
    let e = Expr { id: 5, left: Some(Box::new(Expr::leaf(6, "Length(Name)"))), right: None, function: Some(Function { aggregate: true }), args: Some(Vec::new()), val: None, key: "Min(Length(Name))" };
    let entry = DirEntry;
    let r = s.get_function_value(Some(&entry), &None, &mut map, None, &e);
    assert!(s.log.len() == 1 && s.log[0].0 == 1 && s.log[0].1 == 6, "OBL C07.aggregate.inner: the inner expression of an aggregate is evaluated for the entry");
    assert!(function::take_agg_key().as_deref() == Some("Length(Name)"), "OBL C07.aggregate.inner: the aggregate reads the buffer column named by the inner expression");
    assert!(r.tag == 7, "OBL C07.aggregate.inner: the result is the aggregate value");
    std::mem::forget(e);
}
// C16: F(G(x), a, b) applies F to the value of G(x) and to the values of a, b in order.
#[kani::proof]
#[kani::unwind(8)]
fn c16_scalar_dispatch() {
    kani::cover!(true);
    let mut s = Searcher::new();
    let mut map = HashMap::new();
    let mut args = Vec::new(); args.push(leak(Expr::leaf(2, "1"))); args.push(leak(Expr::leaf(3, "2")));
    let e = Expr { id: 5, left: Some(Box::new(Expr::leaf(1, "Lower(Name)"))), right: None, function: Some(Function { aggregate: false }), args: Some(args), val: None, key: "Substring(Lower(Name), 1, 2)" };
    let entry = DirEntry;
    let r = s.get_function_value(Some(&entry), &None, &mut map, None, &e);
    assert!(s.log.len() == 3 && s.log[0].1 == 1 && s.log[1].1 == 2 && s.log[2].1 == 3, "OBL C16.compose: first argument, then the further arguments, each evaluated once and in order");
    let sc = function::take_scalar();
    assert!(sc.is_some(), "OBL C16.compose: the scalar function is applied");
    let (a, rest) = sc.unwrap();
    assert!(a == "1" && rest.len() == 2 && rest[0] == "2" && rest[1] == "3", "OBL C16.compose: F is applied to the VALUE of its first argument and to the values of the others, in order");
    assert!(r.tag == 8, "OBL C16.compose: the result is the function's value");
    std::mem::forget(e);
}
#[kani::proof]
#[kani::unwind(8)]
fn canary_evalshim_must_fail() {
    let mut s = Searcher::new();
    let e = Expr { id: 0, left: Some(Box::new(Expr::leaf(1, "a"))), right: Some(Box::new(Expr::leaf(2, "b"))), function: None, args: None, val: None, key: "cmp" };
    let entry = DirEntry;
    let (f, _v) = s.frag_operands(&entry, &None, &e);
    std::mem::forget(e);
    assert!(f.of == 2, "CANARY must fail");
}
