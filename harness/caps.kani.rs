// Appended to the scratch copy of src/util/capabilities.rs. Engine K + generated tables (Engine F).
#[cfg(kani)]
pub(crate) mod verif_kani {
    use super::*;
/*GENERATED_TABLES*/
    // linux/capability.h: bit k of the permitted / inheritable words names capability k (k = 0..40)
    #[kani::proof]
    #[kani::unwind(26)]
    fn c04_caps_names() {
        kani::cover!(true);
        assert!(LOW.len() == 32 && HIGH.len() == 9, "OBL C04.caps.names: 32 + 9 capabilities");
/*GENERATED_ASSERTS*/
    }
    // struct vfs_cap_data: magic_etc, then (permitted, inheritable) for the low and for the high word
    #[kani::proof]
    #[kani::unwind(12)]
    fn c04_caps_layout() {
        kani::cover!(true);
        assert!(SLICES.len() == 4, "OBL C04.caps.layout: four words are decoded");
        assert!(SLICES[0] == ("permitted", 4, 8) && SLICES[1] == ("inherited", 8, 12), "OBL C04.caps.layout: low words at bytes 4..8 / 8..12");
        assert!(SLICES[2] == ("permitted", 12, 16) && SLICES[3] == ("inherited", 16, 20), "OBL C04.caps.layout: high words at bytes 12..16 / 16..20");
        // a version-2 capability xattr is exactly 20 bytes: the second pair of words must be decoded for it
        assert!(frag_high_guard(&[0u8; 20]) && frag_high_guard(&[0u8; 24]) && !frag_high_guard(&[0u8; 12]) && !frag_high_guard(&[0u8; 19]),
                "OBL C04.caps.layout: the high words are decoded exactly when the value has at least 20 bytes");
        let b: u8 = kani::any();
        let caps = [b, 0, 0, 2];
        assert!(frag_effective(&caps) == (b == 1), "OBL C04.caps.layout: the effective flag is the low bit of magic_etc (flags byte == 1)");
    }
    // flag letters
    #[kani::proof]
    #[kani::unwind(6)]
    fn c04_caps_flags() {
        let perm: u32 = kani::any(); let inh: u32 = kani::any();
        let k: u32 = kani::any();
        kani::assume(k < 32);
        let cap = 1u32 << k;
        let r = check_capability(perm, inh, cap);
        let p = perm & cap != 0; let i = inh & cap != 0;
        kani::cover!(p && i);
        match r {
            Some(s) => assert!((p && i && s == "ip") || (p && !i && s == "p") || (!p && i && s == "i"), "OBL C04.caps.flags: letters i / p per set bit"),
            None => assert!(!p && !i, "OBL C04.caps.flags: no entry when neither bit is set"),
        }
    }
    #[kani::proof]
    #[kani::unwind(6)]
    fn canary_caps_must_fail() {
        assert!(check_capability(1, 0, 1).is_none(), "CANARY must fail");
    }
}
