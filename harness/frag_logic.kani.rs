#[kani::proof]
fn c03_logic_table() {
    let lop = any_logical(); let l: bool = kani::any(); let r: bool = kani::any();
    let e = FragExpr { left: Some(l), right: Some(r) };
    let got = frag_logic(&lop, &e);
    kani::cover!(true);
    match lop {
        LogicalOp::And => assert!(got == (l && r), "OBL C03.logic.table AND"),
        LogicalOp::Or => assert!(got == (l || r), "OBL C03.logic.table OR"),
    }
}
#[kani::proof]
fn canary_logic_must_fail() {
    let e = FragExpr { left: Some(true), right: Some(false) };
    assert!(frag_logic(&LogicalOp::And, &e), "CANARY must fail");
}
