// Shim world for the column / grouping-key / sort-key loops of Searcher::check_file (Engine F; C07 / C15 / C05).
// Texts are one-byte tokens so that CBMC does not have to reason about heap strings.
use ::std::rc::Rc;
pub struct DirEntry;
pub struct FileInfo;
#[derive(Clone, Copy, PartialEq, Debug)] pub struct Txt(pub u8);
impl Txt { pub fn to_string(&self) -> Txt { *self } }
pub struct Val(pub u8);
impl Val { pub fn to_string(&self) -> Txt { Txt(self.0) } }
#[derive(Clone, Copy)] pub struct Expr { pub id: u8, pub colorized: bool }
impl Expr {
    pub fn to_string(&self) -> Txt { Txt(self.id) }
    pub fn contains_colorized(&self) -> bool { self.colorized }
}
pub struct FileMap { pub keys: [u8; 8], pub vals: [u8; 8], pub n: usize }
impl FileMap {
    pub fn new() -> FileMap { FileMap { keys: [0; 8], vals: [0; 8], n: 0 } }
    pub fn get(&self, k: &Txt) -> Option<&Txt> {
        let mut i = 0;
        while i < self.n { if self.keys[i] == k.0 { return Some(unsafe { &*(&self.vals[i] as *const u8 as *const Txt) }); } i += 1; }
        None
    }
    pub fn insert(&mut self, k: Txt, v: Txt) { if self.n < 8 { self.keys[self.n] = k.0; self.vals[self.n] = v.0; self.n += 1; } }
}
pub struct Query { pub fields: Vec<Expr>, pub grouping_fields: Rc<Vec<Expr>>, pub ordering_fields: Rc<Vec<Expr>> }
pub struct Searcher { pub query: &'static Query, pub use_colors: bool, pub aggregate: bool, pub evaluated: Vec<u8>, pub colorized: u32 }
impl Searcher {
    pub fn has_aggregate_column(&self) -> bool { self.aggregate }
    pub fn is_buffered(&self) -> bool { self.aggregate || !self.query.ordering_fields.is_empty() }
    pub fn colorize(&mut self, v: &Txt) -> Txt { self.colorized += 1; Txt(200) }
    // the value of expression `id` for this entry is 100 + id; like the real evaluator it remembers the value in the per-entry map
    pub fn get_column_expr_value(&mut self, _entry: Option<&DirEntry>, _file_info: &Option<FileInfo>, file_map: &mut FileMap, _buffer: Option<&Vec<u8>>, e: &Expr) -> Val {
        self.evaluated.push(e.id);
        if file_map.get(&Txt(e.id)).is_none() { file_map.insert(Txt(e.id), Txt(100 + e.id)); }
        Val(100 + e.id)
    }
}
