// Prelude of the second generated Verus file (Engine V): get_buffer_sum. Assumed std contracts only.
#![allow(unused_imports, unused_variables, unused_mut, dead_code)]
use vstd::prelude::*;
use std::collections::HashMap;
use std::str::FromStr;
verus! {
#[verifier::external_type_specification]
#[verifier::external_body]
pub struct ExParseIntError(std::num::ParseIntError);
#[verifier::external_trait_specification]
pub trait ExFromStr: Sized {
    type ExternalTraitSpecificationFor: core::str::FromStr;
    type Err;
    fn from_str(s: &str) -> Result<Self, Self::Err>;
}
pub uninterp spec fn spec_parse<F>(s: Seq<char>) -> Option<F>;
pub assume_specification<F: FromStr>[ str::parse::<F> ](s: &str) -> (r: Result<F, F::Err>)
    ensures r is Ok <==> spec_parse::<F>(s@) is Some, r is Ok ==> Some(r->Ok_0) == spec_parse::<F>(s@);

// C07: what one buffered row contributes to SUM(key): the number its text denotes, 0 when the column is absent or
// not a number
pub open spec fn row_value(row: Map<String, String>, key: String) -> nat {
    if row.contains_key(key) { match spec_parse::<usize>(row[key]@) { Some(v) => v as nat, None => 0 } } else { 0 }
}
pub open spec fn spec_sum(rows: Seq<HashMap<String, String>>, key: String) -> nat
    decreases rows.len()
{
    if rows.len() == 0 { 0 } else { spec_sum(rows.drop_last(), key) + row_value(rows.last()@, key) }
}
proof fn lemma_sum_step(rows: Seq<HashMap<String, String>>, key: String, i: int)
    requires 0 <= i < rows.len(),
    ensures spec_sum(rows.take(i + 1), key) == spec_sum(rows.take(i), key) + row_value(rows[i]@, key),
{
    assert(rows.take(i + 1).drop_last() == rows.take(i));
    assert(rows.take(i + 1).last() == rows[i]);
}
proof fn lemma_sum_mono(rows: Seq<HashMap<String, String>>, key: String, i: int)
    requires 0 <= i <= rows.len(),
    ensures spec_sum(rows.take(i), key) <= spec_sum(rows, key),
    decreases rows.len() - i,
{
    if i < rows.len() {
        lemma_sum_step(rows, key, i);
        lemma_sum_mono(rows, key, i + 1);
    } else {
        assert(rows.take(i) == rows);
    }
}
// canary: must FAIL
fn verif_canary_must_fail(x: u8) -> (r: u8)
    ensures r == 255,
{ x }
