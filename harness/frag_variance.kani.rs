fn rows(v: &[u64]) -> Vec<Row> { let mut r = Vec::new(); for x in v { r.push(Row(Some(Cell::Num(*x)))); } r }
fn close(a: f64, b: f64) -> bool { (a - b).abs() <= 1e-9 * (1.0 + b.abs()) }

// textbook: population variance = mean of squared deviations from the (real) mean
#[kani::proof]
#[kani::unwind(10)]
#[kani::stub(f64::powi, powi_square)]
fn c07_var_pop() {
    kani::cover!(true);
    let r = rows(&[2, 4, 4, 4, 5, 5, 7, 9]);
    let v = get_variance(&r, &Key, 8);
    assert!(close(v, 4.0), "OBL C07.variance.pop: VAR_POP of 2,4,4,4,5,5,7,9 is 4");
}
// a mean that is not an integer (1.5): deviations are taken from the real mean
#[kani::proof]
#[kani::unwind(10)]
#[kani::stub(f64::powi, powi_square)]
fn c07_var_fracmean() {
    kani::cover!(true);
    let r = rows(&[1, 2]);
    assert!(close(get_variance(&r, &Key, 2), 0.25), "OBL C07.variance.fracmean: VAR_POP of 1,2 is 0.25");
    assert!(close(get_variance(&r, &Key, 1), 0.5), "OBL C07.variance.fracmean: VAR_SAMP of 1,2 is 0.5");
    let r3 = rows(&[1, 2, 4]);
    // mean 7/3; squared deviations 16/9, 1/9, 25/9 -> sum 42/9; population /3, sample /2
    assert!(close(get_variance(&r3, &Key, 3), 42.0 / 27.0), "OBL C07.variance.fracmean: VAR_POP of 1,2,4 is 14/9");
    assert!(close(get_variance(&r3, &Key, 2), 42.0 / 18.0), "OBL C07.variance.fracmean: VAR_SAMP of 1,2,4 is 7/3");
}
// large values with a small spread: the two-pass formula keeps the spread
#[kani::proof]
#[kani::unwind(10)]
#[kani::stub(f64::powi, powi_square)]
fn c07_var_large() {
    kani::cover!(true);
    let r = rows(&[4000000001, 4000000002, 4000000003]);
    assert!(close(get_variance(&r, &Key, 3), 2.0 / 3.0), "OBL C07.variance.large: VAR_POP of 4e9+1, 4e9+2, 4e9+3 is 2/3");
    assert!(close(get_variance(&r, &Key, 2), 1.0), "OBL C07.variance.large: VAR_SAMP of 4e9+1, 4e9+2, 4e9+3 is 1");
}
// the divisor handed to get_variance: population n, sample n - 1 (n for a single row: no division by zero)
#[kani::proof]
fn c07_var_divisor() {
    let len: usize = kani::any();
    kani::assume(len >= 1);
    kani::cover!(len == 1);
    kani::cover!(len > 2);
    assert!(frag_n_varpop(len) == len, "OBL C07.variance.divisor: VAR_POP divides by the number of rows");
    assert!(frag_n_stddevpop(len) == len, "OBL C07.variance.divisor: STDDEV_POP divides by the number of rows");
    assert!(frag_n_varsamp(len) == if len == 1 { 1 } else { len - 1 }, "OBL C07.variance.divisor: VAR_SAMP divides by n - 1");
    assert!(frag_n_stddevsamp(len) == if len == 1 { 1 } else { len - 1 }, "OBL C07.variance.divisor: STDDEV_SAMP divides by n - 1");
}
#[kani::proof]
#[kani::unwind(10)]
#[kani::stub(f64::powi, powi_square)]
fn canary_variance_must_fail() {
    let r = rows(&[1, 2]);
    assert!(close(get_variance(&r, &Key, 2), 0.5), "CANARY must fail");
}
