// (key, row id) pairs are inserted in the order given; the buffer must hold the `limit` smallest keys (any choice inside a tie group at the cut),
// and values() must list them in non-decreasing key order, rows of equal key in insertion order
fn run(limit: u32, ins: &[(u8, u8)]) -> [u8; 5] {
    let mut t: TopN<u8, u8> = if limit == 0 { TopN::limitless() } else { TopN::new(limit) };
    let mut i = 0;
    while i < ins.len() { t.insert(ins[i].0, ins[i].1); i += 1; }
    let v = t.values();
    // [length, row ids ...]
    let g = |k: usize| match v.get(k) { Some(x) => *x, None => 0 };
    [v.len() as u8, g(0), g(1), g(2), g(3)]
}
#[kani::proof]
#[kani::unwind(7)]
fn c06_topn_basic() {
    kani::cover!(true);
    assert!(run(2, &[(30, 1), (10, 2), (20, 3)]) == [2, 2, 3, 0, 0], "OBL C06.topn.basic: the 2 smallest keys, sorted");
    assert!(run(0, &[(30, 1), (10, 2), (20, 3)]) == [3, 2, 3, 1, 0], "OBL C06.topn.basic: no limit keeps every row, sorted");
    assert!(run(3, &[(30, 1), (10, 2)]) == [2, 2, 1, 0, 0], "OBL C06.topn.basic: fewer rows than the limit: all of them");
}
#[kani::proof]
#[kani::unwind(7)]
fn c06_topn_ties() {
    kani::cover!(true);
    let r = run(3, &[(10, 1), (20, 2), (20, 3), (5, 4)]);
    assert!(r[0] == 3 && r[1] == 4 && r[2] == 1 && (r[3] == 2 || r[3] == 3), "OBL C06.topn.ties: a better key arriving after a tie group filled the buffer evicts one member only");
    let r2 = run(2, &[(10, 1), (20, 2), (20, 3)]);
    assert!(r2[0] == 2 && r2[1] == 1 && (r2[2] == 2 || r2[2] == 3), "OBL C06.topn.ties: a key equal to the worst one does not shrink the buffer");
    assert!(run(0, &[(7, 1), (7, 2), (3, 3)]) == [3, 3, 1, 2, 0], "OBL C06.topn.ties: rows of equal key stay in insertion order");
}
// every assignment of keys to 3 rows and every limit 0..3 (0 = no limit): the rows kept are distinct rows of the input, their key sequence is the
// first N keys of the sorted key list (any tie at the cut resolved either way), rows of equal key in insertion order
#[kani::proof]
#[kani::unwind(7)]
fn c06_topn_symbolic() {
    let k: [u8; 3] = kani::any();
    kani::assume(k[0] < 4 && k[1] < 4 && k[2] < 4);
    let limit: u32 = kani::any();
    kani::assume(limit <= 3);
    kani::cover!(limit == 2 && k[1] == k[2] && k[0] > k[1]);
    kani::cover!(limit == 1 && k[0] == k[1] && k[1] == k[2]);
    let r = run(limit, &[(k[0], 1), (k[1], 2), (k[2], 3)]);
    let n = r[0] as usize;
    assert!(n == if limit == 0 { 3 } else { limit as usize }, "OBL C06.topn.symbolic: exactly min(N, M) rows (all of them without limit)");
    // sorted copy of the keys
    let mut s = k;
    if s[0] > s[1] { s.swap(0, 1); }
    if s[1] > s[2] { s.swap(1, 2); }
    if s[0] > s[1] { s.swap(0, 1); }
    let mut i = 0;
    while i < n {
        let id = r[1 + i];
        assert!(id >= 1 && id <= 3, "OBL C06.topn.symbolic: only rows that were inserted come out");
        assert!(k[(id - 1) as usize] == s[i], "OBL C06.topn.symbolic: the key sequence is the first N keys of the fully sorted result");
        let mut j = 0;
        while j < i {
            assert!(r[1 + j] != id, "OBL C06.topn.symbolic: no row twice");
            if k[(r[1 + j] - 1) as usize] == k[(id - 1) as usize] { assert!(r[1 + j] < id, "OBL C06.topn.symbolic: rows of equal key keep insertion order"); }
            j += 1;
        }
        i += 1;
    }
}
// the real key type (Criteria) has a hand-written Ord (numeric / direction aware) and a *derived* PartialOrd that disagrees with it; the buffer
// must order by Ord alone. DescKey: Ord = descending, PartialOrd (`<`, `>=`) = ascending.
#[derive(Clone, Copy, PartialEq, Eq)] pub struct DescKey(pub u8);
impl PartialOrd for DescKey { fn partial_cmp(&self, o: &DescKey) -> Option<core::cmp::Ordering> { self.0.partial_cmp(&o.0) } }
impl Ord for DescKey { fn cmp(&self, o: &DescKey) -> core::cmp::Ordering { o.0.cmp(&self.0) } }
#[kani::proof]
#[kani::unwind(7)]
fn c06_topn_ord_only() {
    kani::cover!(true);
    let mut t: TopN<DescKey, u8> = TopN::new(2);
    t.insert(DescKey(10), 1); t.insert(DescKey(20), 2); t.insert(DescKey(30), 3);
    let v = t.values();
    assert!(v.len() == 2 && v.get(0) == Some(&3) && v.get(1) == Some(&2), "OBL C06.topn.ord: `order by size desc limit 2` keeps the two LARGEST (the buffer orders keys by Ord, never by the derived PartialOrd)");
}
#[kani::proof]
#[kani::unwind(7)]
fn canary_topn_must_fail() {
    assert!(run(1, &[(30, 1), (10, 2)])[1] == 1, "CANARY must fail");
}
