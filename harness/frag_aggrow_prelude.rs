// Shim world for the ungrouped-aggregate output block of Searcher::list_search_results (Engine F; C07). Texts are one-byte tokens.
// one token type stands for every text, also for the rendered row buffer (String::from(buf) = how many rows the buffer holds)
#[derive(Clone, Copy, PartialEq, Debug)] pub struct String(pub u8);
impl String { pub fn to_string(&self) -> String { *self } pub fn to_lowercase(&self) -> String { *self } }
pub type Txt = String;
// `format!("{}", v)` of the real code: the text of v
macro_rules! format { ("{}", $e:expr) => { $e.text() }; }
pub struct Val(pub u8);
impl Val { pub fn text(&self) -> Txt { String(self.0) } }
#[derive(Clone, Copy)] pub struct Expr { pub id: u8 }
impl Expr { pub fn to_string(&self) -> Txt { String(self.id) } }
pub struct DirEntry;
pub struct FileInfo;
pub struct HashMap;
impl HashMap { pub fn new() -> HashMap { HashMap } }
#[derive(PartialEq, Clone, Copy)] pub enum ErrorKind { BrokenPipe, Other }
pub struct IoError { pub k: ErrorKind }
impl IoError { pub fn kind(&self) -> ErrorKind { self.k } }
pub mod io { pub type Result<T> = core::result::Result<T, super::IoError>; }
pub struct WritableBuffer { pub rows: u8 }
impl WritableBuffer { pub fn new() -> WritableBuffer { WritableBuffer { rows: 0 } } }
impl From<WritableBuffer> for String { fn from(b: WritableBuffer) -> String { String(b.rows) } }
pub type Row = String;
pub static mut ROWS_OUT: u32 = 0;
pub static mut WRITES: u32 = 0;
pub struct Out;
impl Out { pub fn emit(&mut self, r: &Row) -> io::Result<()> { unsafe { WRITES += 1; ROWS_OUT += r.0 as u32; } Ok(()) } }
pub mod std { pub mod io { pub fn stdout() -> super::super::Out { super::super::Out } } }
macro_rules! write { ($dst:expr, "{}", $arg:expr) => { $dst.emit(&$arg) }; }
pub struct ResultsWriter { pub rows: u32, pub separators: u32, pub last_items: [(u8, u8); 3], pub last_n: usize }
impl ResultsWriter {
    pub fn write_row(&mut self, w: &mut WritableBuffer, items: Vec<(Txt, Txt)>) -> io::Result<()> {
        self.rows += 1; w.rows += 1; self.last_n = items.len();
        let mut i = 0; while i < items.len() && i < 3 { self.last_items[i] = (items[i].0 .0, items[i].1 .0); i += 1; }
        Ok(())
    }
    pub fn write_row_separator(&mut self, _w: &mut WritableBuffer) -> io::Result<()> { self.separators += 1; Ok(()) }
}
pub struct Query { pub fields: Vec<Expr> }
pub struct Searcher { pub query: &'static Query, pub results_writer: ResultsWriter, pub evals: u32, pub evals_ok: bool }
impl Searcher {
    // value of the aggregate column `id` over the whole buffer: 100 + id; records that it was asked without an entry and without a partition
    pub fn get_column_expr_value(&mut self, entry: Option<&DirEntry>, file_info: &Option<FileInfo>, _m: &mut HashMap, buffer: Option<&Vec<u8>>, e: &Expr) -> Val {
        self.evals += 1;
        if entry.is_some() || file_info.is_some() || buffer.is_some() { self.evals_ok = false; }
        Val(100 + e.id)
    }
}
