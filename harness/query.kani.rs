// Appended to the scratch copy of src/query.rs. Engine K: output format names in any letter case (C11).
#[cfg(kani)]
pub(crate) mod verif_kani {
    use super::*;
    macro_rules! fmtname {
        ($h:ident, $expect:expr, $($sp:expr),+) => {
            #[kani::proof]
            #[kani::unwind(12)]
            fn $h() {
                kani::cover!(true);
                $( assert!(OutputFormat::from($sp) == Some($expect), concat!("OBL C11.alias.format: spelling ", $sp)); )+
            }
        };
    }
    fmtname!(c11_fmt_tabs, OutputFormat::Tabs, "tabs", "TABS", "Tabs");
    fmtname!(c11_fmt_lines, OutputFormat::Lines, "lines", "LINES", "Lines");
    fmtname!(c11_fmt_list, OutputFormat::List, "list", "LIST", "List");
    fmtname!(c11_fmt_csv, OutputFormat::Csv, "csv", "CSV", "Csv");
    fmtname!(c11_fmt_json, OutputFormat::Json, "json", "JSON", "Json");
    fmtname!(c11_fmt_html, OutputFormat::Html, "html", "HTML", "Html");
    #[kani::proof]
    #[kani::unwind(12)]
    fn c11_fmt_unknown() {
        kani::cover!(true);
        assert!(OutputFormat::from("xml") == None, "OBL C11.alias.format: an unknown name is not silently mapped");
    }
    #[kani::proof]
    #[kani::unwind(12)]
    fn canary_query_must_fail() { assert!(OutputFormat::from("csv") == Some(OutputFormat::Json), "CANARY must fail"); }
}
