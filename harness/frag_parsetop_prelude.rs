// Shim world for the clause sequence of Parser::parse (Engine F; C10 / C06). Each parse_* method logs that it was called and
// returns what the harness scripted.
use ::std::rc::Rc;
macro_rules! dbg { ($($t:tt)*) => { () }; }
#[derive(Clone, Copy, PartialEq, Debug)] pub struct ReqFields(pub bool);
impl ReqFields { pub fn is_empty(&self) -> bool { !self.0 } }
#[derive(Clone, Copy, PartialEq, Debug)] pub struct Expr { pub id: u8, pub needs_file: bool }
impl Expr { pub fn get_required_fields(&self) -> ReqFields { ReqFields(self.needs_file) } }
#[derive(Clone, Copy, PartialEq, Debug)] pub struct RootOptions { pub depth: u32 }
#[derive(Clone, Copy, PartialEq, Debug)] pub struct Root { pub path: u8, pub options: Option<RootOptions> }
impl Root { pub fn default(options: Option<RootOptions>) -> Root { Root { path: 0, options } } }
#[derive(Clone, Copy, PartialEq, Debug)] pub enum OutputFormat { Tabs, Csv }
pub struct Query { pub fields: Vec<Expr>, pub roots: Vec<Root>, pub expr: Option<Expr>, pub grouping_fields: Rc<Vec<Expr>>, pub ordering_fields: Rc<Vec<Expr>>,
                   pub ordering_asc: Rc<Vec<bool>>, pub limit: u32, pub output_format: OutputFormat }
pub struct Script { pub fields_err: bool, pub needs_file: [bool; 2], pub roots1: bool, pub roots2: bool, pub where_err: bool, pub group_err: bool, pub order_err: bool,
                    pub limit: Result<u32, ()>, pub format_err: bool, pub remaining: bool }
pub struct Parser { pub sc: Script, pub log: [u8; 12], pub n: usize, pub roots_parsed: bool, pub where_parsed: bool, pub flags_at_where: (bool, bool), pub flags_at_group: (bool, bool) }
impl Parser {
    fn note(&mut self, k: u8) { if self.n < 12 { self.log[self.n] = k; self.n += 1; } }
    pub fn parse_fields(&mut self) -> Result<Vec<Expr>, String> { self.note(1); if self.sc.fields_err { Err(String::new()) } else { Ok(vec![Expr { id: 1, needs_file: self.sc.needs_file[0] }, Expr { id: 2, needs_file: self.sc.needs_file[1] }]) } }
    pub fn parse_roots(&mut self) -> Vec<Root> {
        self.note(2);
        let first = self.log[..self.n].iter().filter(|k| **k == 2).count() == 1;
        let have = if first { self.sc.roots1 } else { self.sc.roots2 };
        if have { vec![Root { path: if first { 1 } else { 2 }, options: None }] } else { Vec::new() }
    }
    pub fn parse_root_options(&mut self) -> Option<RootOptions> { self.note(3); Some(RootOptions { depth: 7 }) }
    pub fn parse_where(&mut self) -> Result<Option<Expr>, String> { self.note(4); self.flags_at_where = (self.roots_parsed, self.where_parsed); if self.sc.where_err { Err(String::new()) } else { Ok(Some(Expr { id: 9, needs_file: true })) } }
    pub fn parse_group_by(&mut self) -> Result<Vec<Expr>, String> { self.note(5); self.flags_at_group = (self.roots_parsed, self.where_parsed); if self.sc.group_err { Err(String::new()) } else { Ok(Vec::new()) } }
    pub fn parse_order_by(&mut self, fields: &Vec<Expr>) -> Result<(Vec<Expr>, Vec<bool>), String> { self.note(6); if self.sc.order_err { Err(String::new()) } else { Ok((vec![fields[0]], vec![true])) } }
    pub fn parse_limit(&mut self) -> Result<u32, &str> { self.note(7); match self.sc.limit { Ok(n) => Ok(n), Err(()) => Err("bad limit") } }
    pub fn parse_output_format(&mut self) -> Result<OutputFormat, &str> { self.note(8); if self.sc.format_err { Err("bad format") } else { Ok(OutputFormat::Csv) } }
    pub fn there_are_remaining_lexems(&mut self) -> bool { self.note(9); self.sc.remaining }
}
