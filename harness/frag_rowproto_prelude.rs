pub trait Write {}
pub struct Sink; impl Write for Sink {}
/// records the protocol: 1 = row start, 2 = item (position, is_last), 3 = row end
pub struct ResultsWriter { pub log: Vec<(u8, usize, bool)>, pub names_ok: bool, pub expect: Vec<(String, String)> }
impl ResultsWriter {
    fn write_row_start(&mut self, _w: &mut dyn Write) -> std::io::Result<()> { self.log.push((1, 0, false)); Ok(()) }
    fn write_row_item(&mut self, _w: &mut dyn Write, name: &str, value: &str, is_last: bool) -> std::io::Result<()> {
        let pos = self.log.len() - 1;
        if pos >= self.expect.len() || self.expect[pos].0 != name || self.expect[pos].1 != value { self.names_ok = false; }
        self.log.push((2, pos, is_last)); Ok(())
    }
    fn write_row_end(&mut self, _w: &mut dyn Write) -> std::io::Result<()> { self.log.push((3, 0, false)); Ok(()) }
}
