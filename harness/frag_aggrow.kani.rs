// C07: an aggregate query without GROUP BY prints exactly one row: every select-list column, in order, evaluated once over the
// whole buffer (no entry, no partition), shown under its own expression text; no row separator.
#[kani::proof]
#[kani::unwind(6)]
fn c07_single_row() {
    kani::cover!(true);
    let q: &'static Query = Box::leak(Box::new(Query { fields: vec![Expr { id: 1 }, Expr { id: 2 }, Expr { id: 3 }] }));
    let mut w = Searcher { query: q, results_writer: ResultsWriter { rows: 0, separators: 0, last_items: [(0, 0); 3], last_n: 0 }, evals: 0, evals_ok: true };
    unsafe { ROWS_OUT = 0; WRITES = 0; }
    let r = w.frag_aggregate_row();
    assert!(r.is_ok(), "OBL C07.single.row: no error");
    assert!(w.results_writer.rows == 1 && w.results_writer.separators == 0, "OBL C07.single.row: exactly one row, no separator");
    assert!(unsafe { ROWS_OUT == 1 && WRITES == 1 }, "OBL C07.single.row: the row is written to the output once");
    assert!(w.results_writer.last_n == 3 && w.results_writer.last_items == [(1, 101), (2, 102), (3, 103)], "OBL C07.single.row: every column, in order, with the value of its own expression");
    assert!(w.evals == 3 && w.evals_ok, "OBL C07.single.row: each aggregate is evaluated once, over the whole buffer (no entry, no partition)");
}
#[kani::proof]
#[kani::unwind(6)]
fn canary_aggrow_must_fail() {
    let q: &'static Query = Box::leak(Box::new(Query { fields: vec![Expr { id: 1 }] }));
    let mut w = Searcher { query: q, results_writer: ResultsWriter { rows: 0, separators: 0, last_items: [(0, 0); 3], last_n: 0 }, evals: 0, evals_ok: true };
    let _ = w.frag_aggregate_row();
    assert!(w.results_writer.rows == 0, "CANARY must fail");
}
