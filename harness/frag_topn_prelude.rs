// Shims for std::collections::BTreeMap and Vec used by util::TopN (Engine F; C05 / C06): fixed-capacity, array-backed, no heap - CBMC does not
// finish the real B-tree, nor a sorted std::vec::Vec of vectors (M4). Same method names as the std types.
pub const CAP: usize = 4;
pub struct Vec<T> { pub items: [Option<T>; CAP], pub n: usize }
impl<T> Vec<T> {
    pub fn new() -> Vec<T> { Vec { items: [None, None, None, None], n: 0 } }
    pub fn push(&mut self, v: T) { if self.n < CAP { self.items[self.n] = Some(v); self.n += 1; } else { kani::assume(false); } }
    pub fn pop(&mut self) -> Option<T> { if self.n == 0 { None } else { self.n -= 1; self.items[self.n].take() } }
    pub fn is_empty(&self) -> bool { self.n == 0 }
    pub fn len(&self) -> usize { self.n }
    pub fn iter(&self) -> impl Iterator<Item = &T> { self.items[..self.n].iter().map(|o| o.as_ref().unwrap()) }
    pub fn get(&self, i: usize) -> Option<&T> { if i < self.n { self.items[i].as_ref() } else { None } }
}
impl<T> Default for Vec<T> { fn default() -> Vec<T> { Vec::new() } }
impl<T> core::iter::FromIterator<T> for Vec<T> { fn from_iter<I: IntoIterator<Item = T>>(it: I) -> Vec<T> { let mut v = Vec::new(); for x in it { v.push(x); } v } }
impl<'a, T> IntoIterator for &'a Vec<T> { type Item = &'a T; type IntoIter = core::iter::Map<core::slice::Iter<'a, Option<T>>, fn(&'a Option<T>) -> &'a T>;
    fn into_iter(self) -> Self::IntoIter { fn un<'b, U>(o: &'b Option<U>) -> &'b U { o.as_ref().unwrap() } self.items[..self.n].iter().map(un as fn(&'a Option<T>) -> &'a T) } }
pub struct BTreeMap<K, V> { pub items: [Option<(K, V)>; CAP], pub n: usize }
pub struct Entry<'a, K, V> { pub map: &'a mut BTreeMap<K, V>, pub key: K }
impl<K: Ord, V> BTreeMap<K, V> {
    pub fn new() -> BTreeMap<K, V> { BTreeMap { items: [None, None, None, None], n: 0 } }
    fn key_at(&self, i: usize) -> &K { &self.items[i].as_ref().unwrap().0 }
    fn pos(&self, k: &K) -> Result<usize, usize> {
        let mut i = 0;
        while i < self.n {
            match self.key_at(i).cmp(k) { core::cmp::Ordering::Equal => return Ok(i), core::cmp::Ordering::Greater => return Err(i), _ => {} }
            i += 1;
        }
        Err(i)
    }
    fn insert_at(&mut self, i: usize, kv: (K, V)) {
        if self.n >= CAP { kani::assume(false); }
        let mut j = self.n;
        while j > i { self.items[j] = self.items[j - 1].take(); j -= 1; }
        self.items[i] = Some(kv);
        self.n += 1;
    }
    fn remove_at(&mut self, i: usize) -> (K, V) {
        let kv = self.items[i].take().unwrap();
        let mut j = i;
        while j + 1 < self.n { self.items[j] = self.items[j + 1].take(); j += 1; }
        self.n -= 1;
        kv
    }
    pub fn entry(&mut self, key: K) -> Entry<'_, K, V> { Entry { map: self, key } }
    pub fn insert(&mut self, k: K, v: V) -> Option<V> {
        match self.pos(&k) { Ok(i) => Some(core::mem::replace(&mut self.items[i].as_mut().unwrap().1, v)), Err(i) => { self.insert_at(i, (k, v)); None } }
    }
    pub fn remove(&mut self, k: &K) -> Option<V> { match self.pos(k) { Ok(i) => Some(self.remove_at(i).1), Err(_) => None } }
    pub fn iter(&self) -> impl DoubleEndedIterator<Item = (&K, &V)> { self.items[..self.n].iter().map(|o| { let kv = o.as_ref().unwrap(); (&kv.0, &kv.1) }) }
    pub fn values(&self) -> impl DoubleEndedIterator<Item = &V> { self.items[..self.n].iter().map(|o| &o.as_ref().unwrap().1) }
    pub fn keys(&self) -> impl DoubleEndedIterator<Item = &K> { self.items[..self.n].iter().map(|o| &o.as_ref().unwrap().0) }
    pub fn last_key_value(&self) -> Option<(&K, &V)> { if self.n == 0 { None } else { let kv = self.items[self.n - 1].as_ref().unwrap(); Some((&kv.0, &kv.1)) } }
    pub fn pop_last(&mut self) -> Option<(K, V)> { if self.n == 0 { None } else { Some(self.remove_at(self.n - 1)) } }
    pub fn len(&self) -> usize { self.n }
    pub fn is_empty(&self) -> bool { self.n == 0 }
}
impl<'a, K: Ord, V> Entry<'a, K, V> {
    pub fn or_default(self) -> &'a mut V where V: Default {
        let i = match self.map.pos(&self.key) { Ok(i) => i, Err(i) => { self.map.insert_at(i, (self.key, V::default())); i } };
        &mut self.map.items[i].as_mut().unwrap().1
    }
    pub fn or_insert_with<F: FnOnce() -> V>(self, f: F) -> &'a mut V {
        let i = match self.map.pos(&self.key) { Ok(i) => i, Err(i) => { self.map.insert_at(i, (self.key, f())); i } };
        &mut self.map.items[i].as_mut().unwrap().1
    }
}
