fn is_operator(l: &Option<Lexem>, text: &str) -> bool { matches!(l, Some(Lexem::Operator(s)) if s == text) }
fn is_arith(l: &Option<Lexem>, text: &str) -> bool { matches!(l, Some(Lexem::ArithmeticOperator(s)) if s == text) }
fn lx() -> FragLexer { FragLexer { before_from: false, after_where: true } }

macro_rules! words {
    ($h:ident, $pred:ident, $($w:expr),+) => {
        #[kani::proof]
        #[kani::unwind(12)]
        fn $h() {
            kani::cover!(true);
            $( assert!($pred(&lx().classify(String::from($w)), $w), concat!("OBL C11.lexer.words: ", $w)); )+
        }
    };
}
// split over several harnesses to keep each CBMC run small; all must hold for the obligation
words!(lw_ops_1, is_operator, "eq", "ne", "eeq", "ene", "EQ", "NE", "EEQ", "ENE", "Eq");
words!(lw_ops_2, is_operator, "gt", "lt", "ge", "le", "gte", "lte", "GT", "LT", "GE", "LE", "GTE", "LTE");
words!(lw_ops_3, is_operator, "regexp", "rx", "notrx", "REGEXP", "RX", "NOTRX", "Rx");
words!(lw_ops_4, is_operator, "like", "notlike", "between", "LIKE", "NOTLIKE", "BETWEEN", "Like", "Between");
words!(lw_arith, is_arith, "plus", "minus", "mul", "div", "mod", "PLUS", "MINUS", "MUL", "DIV", "MOD", "Plus");

#[kani::proof]
#[kani::unwind(12)]
fn lw_keywords() {
    kani::cover!(true);
    assert!(lx().classify(String::from("from")) == Some(Lexem::From) && lx().classify(String::from("FROM")) == Some(Lexem::From), "OBL C11.lexer.words: from");
    assert!(lx().classify(String::from("where")) == Some(Lexem::Where) && lx().classify(String::from("WHERE")) == Some(Lexem::Where), "OBL C11.lexer.words: where");
    assert!(lx().classify(String::from("or")) == Some(Lexem::Or) && lx().classify(String::from("OR")) == Some(Lexem::Or), "OBL C11.lexer.words: or");
    assert!(lx().classify(String::from("and")) == Some(Lexem::And) && lx().classify(String::from("AND")) == Some(Lexem::And), "OBL C11.lexer.words: and");
    assert!(lx().classify(String::from("not")) == Some(Lexem::Not) && lx().classify(String::from("NOT")) == Some(Lexem::Not), "OBL C11.lexer.words: not (after where)");
    assert!(lx().classify(String::from("order")) == Some(Lexem::Order) && lx().classify(String::from("Order")) == Some(Lexem::Order), "OBL C11.lexer.words: order");
    assert!(lx().classify(String::from("by")) == Some(Lexem::By) && lx().classify(String::from("BY")) == Some(Lexem::By), "OBL C11.lexer.words: by");
    assert!(lx().classify(String::from("desc")) == Some(Lexem::DescendingOrder) && lx().classify(String::from("DESC")) == Some(Lexem::DescendingOrder), "OBL C11.lexer.words: desc");
    assert!(lx().classify(String::from("limit")) == Some(Lexem::Limit) && lx().classify(String::from("LIMIT")) == Some(Lexem::Limit), "OBL C11.lexer.words: limit");
    assert!(lx().classify(String::from("into")) == Some(Lexem::Into) && lx().classify(String::from("INTO")) == Some(Lexem::Into), "OBL C11.lexer.words: into");
}
// the obligation-level harness: conjunction marker (each part is its own harness above; this one re-checks one
// representative of every class so that the obligation id has a harness of its own)
#[kani::proof]
#[kani::unwind(12)]
fn c11_lexer_words() {
    kani::cover!(true);
    assert!(is_operator(&lx().classify(String::from("NotLike")), "NotLike"), "OBL C11.lexer.words: NotLike");
    assert!(is_operator(&lx().classify(String::from("eeq")), "eeq"), "OBL C11.lexer.words: eeq");
    assert!(is_arith(&lx().classify(String::from("Mod")), "Mod"), "OBL C11.lexer.words: Mod");
}
#[kani::proof]
#[kani::unwind(12)]
fn c11_lexer_asc() {
    kani::cover!(true);
    assert!(lx().classify(String::from("asc")) == Some(Lexem::RawString(String::from(ASC_SKIPPED))), "OBL C11.lexer.asc: asc is skipped");
    assert!(lx().classify(String::from("ASC")) == Some(Lexem::RawString(String::from(ASC_SKIPPED))), "OBL C11.lexer.asc: ASC is skipped");
    assert!(lx().classify(String::from("Readme")) == Some(Lexem::RawString(String::from("Readme"))), "OBL C11.lexer.asc: an ordinary word keeps its spelling");
    let mut before = FragLexer { before_from: true, after_where: false };
    assert!(before.classify(String::from("not")) == Some(Lexem::RawString(String::from("not"))), "OBL C11.lexer.asc: not is a keyword only after WHERE");
}
#[kani::proof]
#[kani::unwind(12)]
fn canary_lexwords_must_fail() {
    assert!(is_arith(&lx().classify(String::from("like")), "like"), "CANARY must fail");
}
