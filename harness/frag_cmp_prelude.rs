// shim operands of the typed arms
// a point in time: whole seconds plus a sub-second part (file mtimes have one; literal bounds are whole seconds).
// and_utc().timestamp() is the whole-second value, as for chrono's NaiveDateTime; ordering is by (seconds, nanos).
#[derive(Clone, Copy, PartialEq, Eq, PartialOrd, Ord)] pub struct TS(pub i64, pub u32);
impl TS { pub fn and_utc(self) -> TS { self } pub fn timestamp(self) -> i64 { self.0 } }
#[derive(Clone, Copy)]
pub struct FV { pub i: i64, pub f: f64, pub b: bool, pub d0: i64, pub d1: i64, pub nanos: u32 }
impl FV {
    /// an integer-typed value: to_float is exact conversion
    pub fn int(i: i64) -> FV { FV { i, f: i as f64, b: i == 1, d0: 0, d1: 0, nanos: 0 } }
    /// a float-typed value: to_int truncates (Variant::from_float stores `value as i64`)
    pub fn float(f: f64) -> FV { FV { i: f as i64, f, b: f == 1.0, d0: 0, d1: 0, nanos: 0 } }
    pub fn boolean(b: bool) -> FV { FV { i: b as i64, f: 0.0, b, d0: 0, d1: 0, nanos: 0 } }
    /// a date value / literal: the closed interval [d0, d1] of seconds (d0 == d1 for a column value)
    pub fn date(d0: i64, d1: i64) -> FV { FV { i: 0, f: 0.0, b: false, d0, d1, nanos: 0 } }
    /// an entry time with a sub-second part
    pub fn time(t: i64, nanos: u32) -> FV { FV { i: 0, f: 0.0, b: false, d0: t, d1: t, nanos } }
    pub fn to_int(&self) -> i64 { self.i }
    pub fn to_float(&self) -> f64 { self.f }
    pub fn to_bool(&self) -> bool { self.b }
    pub fn to_datetime(&self) -> (TS, TS) { (TS(self.d0, self.nanos), TS(self.d1, self.nanos)) }
}
