// Prelude of the generated Verus file (Engine V). Everything in this file is an ASSUMED contract on a
// dependency (std) or a trusted stand-in; each item is listed as an assumption in the evidence.
#![feature(pattern)]
#![allow(unused_imports, unused_variables, unused_mut, dead_code, unused_assignments, unreachable_patterns)]
use vstd::prelude::*;
use std::str::FromStr;

verus! {

// ---- std items the extracted bodies call; specified only as far as the proofs need -------------------
pub assume_specification<T>[ <Box<T> as From<T>>::from ](t: T) -> (r: Box<T>)
    ensures *r == t;

// x.to_string() goes through Display (vstd: to_string_from_display_ensures, with an axiom for str only);
// for a String it is the identity on the text.
#[verifier::external_body]
pub broadcast proof fn axiom_to_string_of_string(s: &String, res: String)
    ensures #[trigger] vstd::string::to_string_from_display_ensures::<String>(s, res) ==> res@ == s@
{}

#[verifier::external_trait_specification]
pub trait ExPattern: Sized {
    type ExternalTraitSpecificationFor: core::str::pattern::Pattern;
}

// text of a pattern argument: only known for `&str` patterns (axiom below)
pub uninterp spec fn pat_view<P>(p: P) -> Seq<char>;
#[verifier::external_body]
pub broadcast proof fn axiom_pat_view_str(p: &str)
    ensures #[trigger] pat_view::<&str>(p) == p@
{}
pub open spec fn has_prefix(s: Seq<char>, p: Seq<char>) -> bool {
    p.len() <= s.len() && forall|i: int| 0 <= i < p.len() ==> s[i] == p[i]
}
pub assume_specification<P: core::str::pattern::Pattern>[ str::starts_with::<P> ](s: &str, pat: P) -> (r: bool)
    ensures r == has_prefix(s@, pat_view(pat));

// Unicode lower-casing: an uninterpreted function of the text
pub uninterp spec fn spec_lower(s: Seq<char>) -> Seq<char>;
pub assume_specification[ str::to_lowercase ](s: &str) -> (r: String)
    ensures r@ == spec_lower(s@);

// ASCII lower-casing: an uninterpreted function of the text (the contracts only compare its result with literals)
pub uninterp spec fn spec_ascii_lower(s: Seq<char>) -> Seq<char>;
pub assume_specification[ str::to_ascii_lowercase ](s: &str) -> (r: String)
    ensures r@ == spec_ascii_lower(s@);
pub assume_specification[ str::eq_ignore_ascii_case ](a: &str, b: &str) -> (r: bool)
    ensures r == (spec_ascii_lower(a@) == spec_ascii_lower(b@));
// `String == &str` compares the texts
pub assume_specification<'a>[ <String as PartialEq<&'a str>>::eq ](a: &String, b: &&str) -> (r: bool)
    ensures r == (a@ == b@);
pub assume_specification<'a>[ <String as PartialEq<&'a str>>::ne ](a: &String, b: &&str) -> (r: bool)
    ensures r == (a@ != b@);
pub assume_specification<'a>[ <&'a str as PartialEq<String>>::eq ](a: &&'a str, b: &String) -> (r: bool)
    ensures r == (a@ == b@);
pub assume_specification[ <String as PartialEq<str>>::eq ](a: &String, b: &str) -> (r: bool)
    ensures r == (a@ == b@);
pub assume_specification[ <str as PartialEq<String>>::eq ](a: &str, b: &String) -> (r: bool)
    ensures r == (a@ == b@);

#[verifier::external_type_specification]
#[verifier::external_body]
pub struct ExParseIntError(std::num::ParseIntError);

#[verifier::external_trait_specification]
pub trait ExFromStr: Sized {
    type ExternalTraitSpecificationFor: core::str::FromStr;
    type Err;
    fn from_str(s: &str) -> Result<Self, Self::Err>;
}

// str::parse: total, no panic. The value is tied to an uninterpreted spec function per target type so
// that the contracts can talk about "the number this token denotes".
pub uninterp spec fn spec_parse<F>(s: Seq<char>) -> Option<F>;

pub assume_specification<F: FromStr>[ str::parse::<F> ](s: &str) -> (r: Result<F, F::Err>)
    ensures
        r is Ok <==> spec_parse::<F>(s@) is Some,
        r is Ok ==> Some(r->Ok_0) == spec_parse::<F>(s@),
;

} // verus!
