// Prelude of the generated Verus file (Engine V). Everything in this file is an ASSUMED contract on a
// dependency (std) or a trusted stand-in; each item is listed as an assumption in the evidence.
#![feature(pattern)]
#![allow(unused_imports, unused_variables, unused_mut, dead_code, unused_assignments, unreachable_patterns)]
use vstd::prelude::*;
use std::str::FromStr;

verus! {

// ---- std items the extracted bodies call; specified only as far as the proofs need -------------------
pub assume_specification<T>[ <Box<T> as From<T>>::from ](t: T) -> (r: Box<T>)
    ensures *r == t;

// x.to_string() goes through Display (vstd: to_string_from_display_ensures, with an axiom for str only);
// for a String it is the identity on the text.
#[verifier::external_body]
pub broadcast proof fn axiom_to_string_of_string(s: &String, res: String)
    ensures #[trigger] vstd::string::to_string_from_display_ensures::<String>(s, res) ==> res@ == s@
{}

#[verifier::external_trait_specification]
pub trait ExPattern: Sized {
    type ExternalTraitSpecificationFor: core::str::pattern::Pattern;
}

pub assume_specification<P: core::str::pattern::Pattern>[ str::starts_with::<P> ](s: &str, pat: P) -> (r: bool);

pub assume_specification[ str::to_lowercase ](s: &str) -> (r: String);

pub assume_specification[ str::to_ascii_lowercase ](s: &str) -> (r: String);

#[verifier::external_type_specification]
#[verifier::external_body]
pub struct ExParseIntError(std::num::ParseIntError);

#[verifier::external_trait_specification]
pub trait ExFromStr: Sized {
    type ExternalTraitSpecificationFor: core::str::FromStr;
    type Err;
    fn from_str(s: &str) -> Result<Self, Self::Err>;
}

// str::parse: total, no panic. The value is tied to an uninterpreted spec function per target type so
// that the contracts can talk about "the number this token denotes".
pub uninterp spec fn spec_parse<F>(s: Seq<char>) -> Option<F>;

pub assume_specification<F: FromStr>[ str::parse::<F> ](s: &str) -> (r: Result<F, F::Err>)
    ensures
        r is Ok <==> spec_parse::<F>(s@) is Some,
        r is Ok ==> Some(r->Ok_0) == spec_parse::<F>(s@),
;

} // verus!
