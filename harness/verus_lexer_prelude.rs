// Prelude of the generated Verus file for the lexer (Engine V). Everything in this file is an ASSUMED contract on a
// dependency (std) or a trusted stand-in; each item is listed as an assumption in the evidence.
#![allow(unused_imports, unused_variables, unused_mut, dead_code, unused_assignments, unreachable_patterns)]
use vstd::prelude::*;
verus! {
pub assume_specification[ str::to_lowercase ](s: &str) -> (r: String);
// stands for the expression `X.chars().nth(N)` (Verus cannot specify the provided trait method Iterator::nth): the N-th
// character of the text, None past the end
#[verifier::external_body]
fn verif_char_at(s: &String, n: usize) -> (r: Option<char>)
    ensures r == (if n < s@.len() { Some(s@[n as int]) } else { None::<char> })
{ s.chars().nth(n) }
