// Appended to the scratch copy of src/output/flat.rs. Engine K. format_element goes through format!: symbolic
// operands do not terminate in CBMC, so concrete witnesses are used (bounded).
#[cfg(kani)]
pub(crate) mod verif_kani {
    use super::*;
/*GENERATED_CELL*/
    fn check(mut f: FlatWriter, field_sep: &str, row_sep: &str) {
        kani::cover!(true);
        assert!(f.frag_format_element("col", "ab", true).as_deref() == Some("ab"), "OBL C09.flat.cell: last element is the bare value");
        let got = f.frag_format_element("col", "ab", false).unwrap();
        assert!(got.len() == 2 + field_sep.len() && got.starts_with("ab") && got.ends_with(field_sep),
                "OBL C09.flat.cell: element = value + field separator");
        let got = f.frag_format_element("col", "", false).unwrap();
        assert!(got == field_sep, "OBL C09.flat.cell: empty value still followed by the separator");
        let re = f.row_ended();
        assert!(re.as_deref() == Some(row_sep), "OBL C09.flat.cell: row ends with the row separator");
        assert!(f.header().is_none() && f.footer().is_none() && f.row_started().is_none() && f.row_separator().is_none(),
                "OBL C09.flat.cell: no header / footer / row prefix");
    }
    #[kani::proof]
    #[kani::unwind(8)]
    fn c09_flat_tabs() { check(TABS_FORMATTER, "\t", "\n"); }
    #[kani::proof]
    #[kani::unwind(8)]
    fn c09_flat_lines() { check(LINES_FORMATTER, "\n", "\n"); }
    #[kani::proof]
    #[kani::unwind(8)]
    fn c09_flat_list() { check(LIST_FORMATTER, "\0", "\0"); }
    #[kani::proof]
    #[kani::unwind(8)]
    fn canary_flat_must_fail() {
        let mut f = TABS_FORMATTER;
        assert!(f.frag_format_element("c", "x", false).unwrap() == "x", "CANARY must fail");
    }
}
