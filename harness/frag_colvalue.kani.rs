fn run(e: &Expr, map: &mut HashMap<String, String>) -> Variant {
    let mut s = Searcher; let entry = DirEntry;
    s.get_column_expr_value(Some(&entry), &None, map, None, e)
}
#[kani::proof]
#[kani::unwind(10)]
fn c15_minus_column() {
    kani::cover!(true);
    let mut m = HashMap::new();
    let mut f = leaf("k1"); f.field = Some(Field(7));
    assert!(run(&f, &mut m) == v_field(7), "OBL C15.minus.column: a plain column is its field value");
    let mut g = leaf("k2"); g.field = Some(Field(7)); g.minus = true;
    let mut m2 = HashMap::new();
    assert!(run(&g, &mut m2) == v_neg(v_field(7)), "OBL C15.minus.column: a leading minus negates a column");
    let mut h = leaf("k3"); h.function = Some(3); h.minus = true;
    let mut m3 = HashMap::new();
    assert!(run(&h, &mut m3) == v_neg(v_func(3)), "OBL C15.minus.column: a leading minus negates a function call");
    let mut l = leaf("k4"); l.val = Some("1"); l.minus = true;
    let mut m4 = HashMap::new();
    assert!(run(&l, &mut m4) == v_lit(1, true), "OBL C15.minus.column: a leading minus negates a literal");
}
#[kani::proof]
#[kani::unwind(10)]
fn canary_colvalue_must_fail() {
    let mut f = leaf("k1"); f.field = Some(Field(7));
    let mut m = HashMap::new();
    assert!(run(&f, &mut m) == v_field(8), "CANARY must fail");
}
