// C13: a literal written to day / hour / minute / second precision denotes the closed interval it covers.
// C10: a time of day that does not exist is rejected here, so that the later with_hour(..).unwrap() cannot panic.
#[kani::proof]
fn c13_precision() {
    let h: Option<u32> = kani::any(); let m: Option<u32> = kani::any(); let sec: Option<u32> = kani::any();
    // digits captured by the regex: at most two, and a finer field only after the coarser one
    if let Some(x) = h { kani::assume(x < 100); }
    if let Some(x) = m { kani::assume(x < 100 && h.is_some()); }
    if let Some(x) = sec { kani::assume(x < 100 && m.is_some()); }
    let cap = SCap { g6: h.map(SVal), g7: m.map(SVal), g8: sec.map(SVal) };
    let r = frag_time_of_day(&cap, "lit");
    let valid = h.unwrap_or(0) < 24 && m.unwrap_or(0) < 60 && sec.unwrap_or(0) < 60;
    kani::cover!(valid && h.is_some() && m.is_none());
    match r {
        Ok((hs, ms, ss, hf, mf, sf)) => {
            assert!(valid, "OBL C10.date.range: a time of day outside 00:00:00..23:59:59 is rejected");
            assert!(hs < 24 && hf < 24 && ms < 60 && mf < 60 && ss < 60 && sf < 60, "OBL C10.date.range: accepted values are in range (no unwrap on None later)");
            assert!((hs, hf) == match h { Some(x) => (x, x), None => (0, 23) }, "OBL C13.precision: hour");
            assert!((ms, mf) == match m { Some(x) => (x, x), None => (0, 59) }, "OBL C13.precision: minute");
            assert!((ss, sf) == match sec { Some(x) => (x, x), None => (0, 59) }, "OBL C13.precision: second");
        }
        Err(_) => assert!(!valid, "OBL C13.precision: every existing time of day is accepted"),
    }
}
#[kani::proof]
fn canary_dateprecision_must_fail() {
    let cap = SCap { g6: None, g7: None, g8: None };
    assert!(frag_time_of_day(&cap, "x").is_err(), "CANARY must fail");
}
