// C13: a literal written to day / hour / minute / second precision denotes the closed interval it covers.
// C10: a time of day that does not exist is rejected here, so that the later with_hour(..).unwrap() cannot panic.
#[kani::proof]
fn c13_precision() {
    let h: Option<u32> = kani::any(); let m: Option<u32> = kani::any(); let sec: Option<u32> = kani::any();
    // digits captured by the regex: at most two, and a finer field only after the coarser one
    if let Some(x) = h { kani::assume(x < 100); }
    if let Some(x) = m { kani::assume(x < 100 && h.is_some()); }
    if let Some(x) = sec { kani::assume(x < 100 && m.is_some()); }
    let cap = SCap { g6: h.map(SVal), g7: m.map(SVal), g8: sec.map(SVal) };
    let r = frag_time_of_day(&cap, "lit");
    let valid = h.unwrap_or(0) < 24 && m.unwrap_or(0) < 60 && sec.unwrap_or(0) < 60;
    kani::cover!(valid && h.is_some() && m.is_none());
    match r {
        Ok((hs, ms, ss, hf, mf, sf)) => {
            assert!(valid, "OBL C10.date.range: a time of day outside 00:00:00..23:59:59 is rejected");
            assert!(hs < 24 && hf < 24 && ms < 60 && mf < 60 && ss < 60 && sf < 60, "OBL C10.date.range: accepted values are in range (no unwrap on None later)");
            assert!((hs, hf) == match h { Some(x) => (x, x), None => (0, 23) }, "OBL C13.precision: hour");
            assert!((ms, mf) == match m { Some(x) => (x, x), None => (0, 59) }, "OBL C13.precision: minute");
            assert!((ss, sf) == match sec { Some(x) => (x, x), None => (0, 59) }, "OBL C13.precision: second");
        }
        Err(_) => assert!(!valid, "OBL C13.precision: every existing time of day is accepted"),
    }
}
// C10: a calendar date that does not exist (month 13, 30 February, day 0 ..) is an error, not a panic; C13: start and finish lie on the day written
#[kani::proof]
fn c10_date_calendar() {
    let y: i32 = kani::any(); let mo: u32 = kani::any(); let d: u32 = kani::any();
    // the regex captures 4 digits for the year and 1-2 for month and day
    kani::assume(y >= 0 && y <= 9999 && mo < 100 && d < 100);
    let hs: u32 = kani::any(); let ms: u32 = kani::any(); let ss: u32 = kani::any();
    let hf: u32 = kani::any(); let mf: u32 = kani::any(); let sf: u32 = kani::any();
    // what the time-of-day block hands over (C10.date.range)
    kani::assume(hs < 24 && hf < 24 && ms < 60 && mf < 60 && ss < 60 && sf < 60);
    kani::cover!(mo == 2 && d == 30);
    kani::cover!(valid_date(y, mo, d));
    let r = frag_calendar(y, mo, d, hs, ms, ss, hf, mf, sf, "x");
    match r {
        Ok((a, b)) => {
            assert!(valid_date(y, mo, d), "OBL C10.date.calendar: a date that is not in the calendar is rejected");
            assert!((a.y, a.mo, a.d) == (y, mo, d) && (b.y, b.mo, b.d) == (y, mo, d), "OBL C13.calendar: start and finish lie on the day written");
            assert!((a.h, a.mi, a.s) == (hs, ms, ss) && (b.h, b.mi, b.s) == (hf, mf, sf), "OBL C13.calendar: start / finish carry the start / finish time of day");
        }
        Err(_) => assert!(!valid_date(y, mo, d), "OBL C10.date.calendar: every calendar date is accepted"),
    }
}
#[kani::proof]
fn canary_dateprecision_must_fail() {
    let cap = SCap { g6: None, g7: None, g8: None };
    assert!(frag_time_of_day(&cap, "x").is_err(), "CANARY must fail");
}
