// Appended to the scratch copy of src/field.rs. Engine K. The table `field_at` is generated from the real enum
// definition on every run, so a new variant is enumerated automatically.
#[cfg(kani)]
pub(crate) mod verif_kani {
    use super::*;
/*GENERATED_FIELD_TABLE*/
    /// integer-valued columns of docs/usage.md
    fn doc_integer(f: Field) -> bool {
        matches!(f, Field::Size | Field::Uid | Field::Gid | Field::Device | Field::Inode | Field::Blocks | Field::Hardlinks
            | Field::Width | Field::Height | Field::LineCount | Field::Bitrate | Field::Freq | Field::Year)
    }
    fn doc_date(f: Field) -> bool { matches!(f, Field::Created | Field::Accessed | Field::Modified) }
    fn doc_text(f: Field) -> bool {
        matches!(f, Field::Name | Field::Path | Field::AbsPath | Field::Extension | Field::Directory | Field::AbsDir | Field::Mode
            | Field::Title | Field::Artist | Field::Album | Field::Genre | Field::Mime | Field::ExifMake | Field::ExifModel
            | Field::ExifSoftware | Field::ExifVersion | Field::Capabilities | Field::Sha1 | Field::Sha256 | Field::Sha512 | Field::Sha3)
    }
    #[kani::proof]
    fn c05_numeric_classification() {
        let k: u8 = kani::any();
        kani::assume(k < N_FIELDS);
        let f = field_at(k);
        kani::cover!(true);
        if doc_integer(f) {
            assert!(f.is_numeric_field() && !f.is_datetime_field(), "OBL C05.numeric.classification: integer column compared numerically");
        }
        if doc_date(f) {
            assert!(f.is_datetime_field() && !f.is_numeric_field(), "OBL C05.numeric.classification: date column compared chronologically");
        }
        if doc_text(f) {
            assert!(!f.is_numeric_field() && !f.is_datetime_field(), "OBL C05.numeric.classification: text column compared as string");
        }
    }
    // ---- C11: documented column aliases and letter case (docs/usage.md column table) ----
    macro_rules! falias {
        ($h:ident, $expect:expr, $($sp:expr),+) => {
            #[kani::proof]
            #[kani::unwind(16)]
            fn $h() {
                kani::cover!(true);
                $( assert!(Field::from_str($sp) == Ok($expect), concat!("OBL C11.alias.field: spelling ", $sp)); )+
            }
        };
    }
    falias!(c11_field_ext, Field::Extension, "ext", "extension", "EXT", "Extension");
    falias!(c11_field_dir, Field::Directory, "dir", "dirname", "directory", "DIR", "DirName");
    falias!(c11_field_fsize, Field::FormattedSize, "fsize", "hsize", "FSIZE");
    falias!(c11_field_pipe, Field::IsPipe, "is_pipe", "is_fifo", "IS_FIFO");
    falias!(c11_field_char, Field::IsCharacterDevice, "is_char", "is_character", "IS_CHAR");
    falias!(c11_field_caps, Field::Capabilities, "capabilities", "caps", "CAPS");
    falias!(c11_field_exif, Field::ExifGpsLongitude, "exif_longitude", "exif_lng", "exif_lon", "EXIF_LON");
    falias!(c11_field_exif2, Field::ExifGpsLatitude, "exif_latitude", "exif_lat");
    falias!(c11_field_exif3, Field::ExifGpsAltitude, "exif_altitude", "exif_alt");
    falias!(c11_field_mp3a, Field::Title, "mp3_title", "title", "TITLE");
    falias!(c11_field_mp3b, Field::Album, "mp3_album", "album");
    falias!(c11_field_mp3c, Field::Artist, "mp3_artist", "artist");
    falias!(c11_field_mp3d, Field::Genre, "mp3_genre", "genre");
    falias!(c11_field_mp3e, Field::Freq, "mp3_freq", "freq");
    falias!(c11_field_mp3f, Field::Bitrate, "mp3_bitrate", "bitrate");
    falias!(c11_field_sha, Field::Sha256, "sha2_256", "sha256", "SHA256");
    falias!(c11_field_sha2, Field::Sha512, "sha2_512", "sha512");
    falias!(c11_field_sha3, Field::Sha3, "sha3_512", "sha3");
    falias!(c11_field_case, Field::Name, "name", "NAME", "Name", "nAmE");
    falias!(c11_field_case2, Field::Size, "size", "SIZE", "Size");

    #[kani::proof]
    fn canary_field_must_fail() {
        let k: u8 = kani::any();
        kani::assume(k < N_FIELDS);
        assert!(field_at(k).is_numeric_field(), "CANARY must fail");
    }
}
