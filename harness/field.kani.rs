// Appended to the scratch copy of src/field.rs. Engine K. The table `field_at` is generated from the real enum
// definition on every run, so a new variant is enumerated automatically.
#[cfg(kani)]
pub(crate) mod verif_kani {
    use super::*;
/*GENERATED_FIELD_TABLE*/
    /// integer-valued columns of docs/usage.md
    fn doc_integer(f: Field) -> bool {
        matches!(f, Field::Size | Field::Uid | Field::Gid | Field::Device | Field::Inode | Field::Blocks | Field::Hardlinks
            | Field::Width | Field::Height | Field::LineCount | Field::Bitrate | Field::Freq | Field::Year)
    }
    fn doc_date(f: Field) -> bool { matches!(f, Field::Created | Field::Accessed | Field::Modified) }
    fn doc_text(f: Field) -> bool {
        matches!(f, Field::Name | Field::Path | Field::AbsPath | Field::Extension | Field::Directory | Field::AbsDir | Field::Mode
            | Field::Title | Field::Artist | Field::Album | Field::Genre | Field::Mime | Field::ExifMake | Field::ExifModel
            | Field::ExifSoftware | Field::ExifVersion | Field::Capabilities | Field::Sha1 | Field::Sha256 | Field::Sha512 | Field::Sha3)
    }
    #[kani::proof]
    fn c05_numeric_classification() {
        let k: u8 = kani::any();
        kani::assume(k < N_FIELDS);
        let f = field_at(k);
        kani::cover!(true);
        if doc_integer(f) {
            assert!(f.is_numeric_field() && !f.is_datetime_field(), "OBL C05.numeric.classification: integer column compared numerically");
        }
        if doc_date(f) {
            assert!(f.is_datetime_field() && !f.is_numeric_field(), "OBL C05.numeric.classification: date column compared chronologically");
        }
        if doc_text(f) {
            assert!(!f.is_numeric_field() && !f.is_datetime_field(), "OBL C05.numeric.classification: text column compared as string");
        }
    }
    #[kani::proof]
    fn canary_field_must_fail() {
        let k: u8 = kani::any();
        kani::assume(k < N_FIELDS);
        assert!(field_at(k).is_numeric_field(), "CANARY must fail");
    }
}
