// Appended to the scratch copy of src/function.rs. Engine K: documented function aliases and letter case (C11).
#[cfg(kani)]
pub(crate) mod verif_kani_names {
    use super::*;
    macro_rules! fnalias {
        ($h:ident, $expect:expr, $($sp:expr),+) => {
            #[kani::proof]
            #[kani::unwind(20)]
            fn $h() {
                kani::cover!(true);
                $( assert!(Function::from_str($sp) == Ok($expect), concat!("OBL C11.alias.function: spelling ", $sp)); )+
            }
        };
    }
    fnalias!(c11_fn_lower, Function::Lower, "lower", "lowercase", "lcase", "LOWER", "Lcase");
    fnalias!(c11_fn_upper, Function::Upper, "upper", "uppercase", "ucase", "UPPER");
    fnalias!(c11_fn_length, Function::Length, "length", "len", "LENGTH", "Len");
    fnalias!(c11_fn_substr, Function::Substring, "substring", "substr", "SUBSTR");
    fnalias!(c11_fn_power, Function::Power, "power", "pow", "POW");
    fnalias!(c11_fn_curdate, Function::CurrentDate, "current_date", "cur_date", "curdate", "CURDATE");
    fnalias!(c11_fn_dow, Function::DayOfWeek, "dow", "dayofweek", "DOW");
    fnalias!(c11_fn_varpop, Function::VarPop, "var_pop", "variance", "VAR_POP");
    fnalias!(c11_fn_random, Function::Random, "random", "rand", "RAND");
    fnalias!(c11_fn_fmttime, Function::FormatTime, "format_time", "pretty_time", "FORMAT_TIME");
    fnalias!(c11_fn_caps, Function::HasCapability, "has_capability", "has_cap", "HAS_CAP");
    fnalias!(c11_fn_caps2, Function::HasCapabilities, "has_capabilities", "has_caps");
    fnalias!(c11_fn_kana, Function::ContainsKana, "contains_kana", "kana");
    fnalias!(c11_fn_agg, Function::Count, "count", "COUNT", "Count");
/*GENERATED_FUNCTION_TABLE*/
    // C11: exactly the documented argument-less functions may be written without `()`
    #[kani::proof]
    fn c11_argless_table() {
        let k: u8 = kani::any();
        kani::assume(k < N_FUNCTIONS);
        kani::cover!(k == N_FUNCTIONS - 1);
        let f = function_at(k);
        let documented = matches!(f, Function::CurrentDate | Function::CurrentUid | Function::CurrentUser | Function::CurrentGid | Function::CurrentGroup);
        assert!(f.is_argumentless_function() == documented, "OBL C11.argless.table");
    }
    // C07: exactly the nine documented aggregate functions are aggregate functions
    #[kani::proof]
    fn c07_aggregate_table() {
        let k: u8 = kani::any();
        kani::assume(k < N_FUNCTIONS);
        kani::cover!(k == N_FUNCTIONS - 1);
        let f = function_at(k);
        let documented = matches!(f, Function::Min | Function::Max | Function::Avg | Function::Sum | Function::Count
            | Function::StdDevPop | Function::StdDevSamp | Function::VarPop | Function::VarSamp);
        assert!(f.is_aggregate_function() == documented, "OBL C07.aggregate.table");
    }
    #[kani::proof]
    #[kani::unwind(20)]
    fn canary_fnnames_must_fail() { assert!(Function::from_str("len") == Ok(Function::Lower), "CANARY must fail"); }
}
